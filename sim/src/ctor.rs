//! The constructor layer: every public tag constructor of `multiboot2` and
//! `multiboot2-header`, driven from generic op arguments, together with
//!
//! * the **spec encoder** — an independent little-endian encoder written from
//!   the Multiboot2 specification's `multiboot2.h` (type number, unpadded size,
//!   field order and widths); it never looks at the crate's struct layouts;
//! * the **read-back** list — accessors that must return the arguments;
//! * the **placement** check — a by-value tag's byte view must be obtainable
//!   at every address its Rust alignment allows.
//!
//! Argument conventions (positions in `Op::a` after `[slot, ctor]`, and
//! `Op::b`) are documented on each arm of `build`.

use crate::ops::Op;
use crate::rng::Rng;
use crate::simalloc::Scope;
use multiboot2 as mb;
use multiboot2::{MaybeDynSized, Tag};
use multiboot2_header as mh;
use std::panic::{catch_unwind, AssertUnwindSafe};

macro_rules! ctors {
    ($($name:ident = $val:expr),* $(,)?) => {
        #[derive(Clone, Copy, Debug, PartialEq, Eq, Hash, PartialOrd, Ord)]
        #[repr(u64)]
        pub enum Ctor { $($name = $val),* }
        impl Ctor {
            pub const ALL: &'static [Ctor] = &[$(Ctor::$name),*];
            pub fn from_u64(v: u64) -> Option<Ctor> {
                match v { $($val => Some(Ctor::$name),)* _ => None }
            }
            pub fn name(self) -> &'static str {
                match self { $(Ctor::$name => stringify!($name)),* }
            }
        }
    };
}

ctors! {
    Cmdline = 0, BootLoaderName = 1, Module = 2, BasicMeminfo = 3, Bootdev = 4, Mmap = 5, Vbe = 6,
    Framebuffer = 7, ElfSections = 8, Apm = 9, Efi32 = 10, Efi64 = 11, Smbios = 12, RsdpV1 = 13,
    RsdpV2 = 14, Network = 15, EfiMmapFromMap = 16, EfiMmapFromDescs = 17, EfiBsNew = 18,
    EfiBsDefault = 19, Efi32Ih = 20, Efi64Ih = 21, ImageLoadAddr = 22, EndDefault = 23,
    TagHdrNew = 24, MemAreaNew = 25, Custom = 26,
    HInfoReq = 30, HAddress = 31, HEntryAddress = 32, HConsole = 33, HFramebuffer = 34,
    HModuleAlign = 35, HEfiBs = 36, HEntryEfi32 = 37, HEntryEfi64 = 38, HRelocatable = 39,
    HEndNew = 40, HEndDefault = 41, HTagHdrNew = 42,
}

/// Constructors that are C07 subjects (`Custom` is `new_boxed`, a C16 subject;
/// it exists here only so that the MBI builder can be fed custom tags).
pub const C07_CTORS: &[Ctor] = &[
    Ctor::Cmdline, Ctor::BootLoaderName, Ctor::Module, Ctor::BasicMeminfo, Ctor::Bootdev, Ctor::Mmap,
    Ctor::Vbe, Ctor::Framebuffer, Ctor::ElfSections, Ctor::Apm, Ctor::Efi32, Ctor::Efi64, Ctor::Smbios,
    Ctor::RsdpV1, Ctor::RsdpV2, Ctor::Network, Ctor::EfiMmapFromMap, Ctor::EfiMmapFromDescs,
    Ctor::EfiBsNew, Ctor::EfiBsDefault, Ctor::Efi32Ih, Ctor::Efi64Ih, Ctor::ImageLoadAddr,
    Ctor::EndDefault, Ctor::TagHdrNew, Ctor::MemAreaNew,
    Ctor::HInfoReq, Ctor::HAddress, Ctor::HEntryAddress, Ctor::HConsole, Ctor::HFramebuffer,
    Ctor::HModuleAlign, Ctor::HEfiBs, Ctor::HEntryEfi32, Ctor::HEntryEfi64, Ctor::HRelocatable,
    Ctor::HEndNew, Ctor::HEndDefault, Ctor::HTagHdrNew,
];

/// The 22 MBI builder slots, by the constructor that feeds each.
/// (`EfiMmapFromMap`/`EfiMmapFromDescs` feed the same slot, as do
/// `EfiBsNew`/`EfiBsDefault`.)
pub const MBI_SLOT_CTORS: &[Ctor] = &[
    Ctor::Cmdline, Ctor::BootLoaderName, Ctor::Module, Ctor::BasicMeminfo, Ctor::Bootdev, Ctor::Mmap,
    Ctor::Vbe, Ctor::Framebuffer, Ctor::ElfSections, Ctor::Apm, Ctor::Efi32, Ctor::Efi64, Ctor::Smbios,
    Ctor::RsdpV1, Ctor::RsdpV2, Ctor::Network, Ctor::EfiMmapFromMap, Ctor::EfiMmapFromDescs,
    Ctor::EfiBsNew, Ctor::EfiBsDefault, Ctor::Efi32Ih, Ctor::Efi64Ih, Ctor::ImageLoadAddr, Ctor::Custom,
];

pub const HDR_SLOT_CTORS: &[Ctor] = &[
    Ctor::HInfoReq, Ctor::HAddress, Ctor::HEntryAddress, Ctor::HConsole, Ctor::HFramebuffer,
    Ctor::HModuleAlign, Ctor::HEfiBs, Ctor::HEntryEfi32, Ctor::HEntryEfi64, Ctor::HRelocatable,
];

/// Builder slot a constructor's result goes to (names as in Appendix B).
pub fn mbi_slot(c: Ctor) -> Option<(&'static str, bool)> {
    // (slot name, repeatable)
    Some(match c {
        Ctor::Cmdline => ("cmdline", false),
        Ctor::BootLoaderName => ("bootloader", false),
        Ctor::Module => ("add_module", true),
        Ctor::BasicMeminfo => ("meminfo", false),
        Ctor::Bootdev => ("bootdev", false),
        Ctor::Mmap => ("mmap", false),
        Ctor::Vbe => ("vbe", false),
        Ctor::Framebuffer => ("framebuffer", false),
        Ctor::ElfSections => ("elf_sections", false),
        Ctor::Apm => ("apm", false),
        Ctor::Efi32 => ("efi32", false),
        Ctor::Efi64 => ("efi64", false),
        Ctor::Smbios => ("add_smbios", true),
        Ctor::RsdpV1 => ("rsdpv1", false),
        Ctor::RsdpV2 => ("rsdpv2", false),
        Ctor::Network => ("network", false),
        Ctor::EfiMmapFromMap | Ctor::EfiMmapFromDescs => ("efi_mmap", false),
        Ctor::EfiBsNew | Ctor::EfiBsDefault => ("efi_bs", false),
        Ctor::Efi32Ih => ("efi32_ih", false),
        Ctor::Efi64Ih => ("efi64_ih", false),
        Ctor::ImageLoadAddr => ("image_load_addr", false),
        Ctor::Custom => ("add_custom_tag", true),
        _ => return None,
    })
}

pub fn hdr_slot(c: Ctor) -> Option<&'static str> {
    Some(match c {
        Ctor::HInfoReq => "information_request_tag",
        Ctor::HAddress => "address_tag",
        Ctor::HEntryAddress => "entry_tag",
        Ctor::HConsole => "console_tag",
        Ctor::HFramebuffer => "framebuffer_tag",
        Ctor::HModuleAlign => "module_align_tag",
        Ctor::HEfiBs => "efi_bs_tag",
        Ctor::HEntryEfi32 => "efi_32_tag",
        Ctor::HEntryEfi64 => "efi_64_tag",
        Ctor::HRelocatable => "relocatable_tag",
        _ => return None,
    })
}

// ---------------------------------------------------------------------------
// Argument helpers
// ---------------------------------------------------------------------------

pub const ARG0: usize = 2; // first data scalar in Op::a

fn a(op: &Op, i: usize) -> u64 {
    op.arg(ARG0 + i)
}

fn fixed<const N: usize>(src: &[u8]) -> [u8; N] {
    let mut out = [0u8; N];
    let n = src.len().min(N);
    out[..n].copy_from_slice(&src[..n]);
    out
}

fn hflag(v: u64) -> mh::HeaderTagFlag {
    if v % 2 == 0 {
        mh::HeaderTagFlag::Required
    } else {
        mh::HeaderTagFlag::Optional
    }
}

fn htype(v: u64) -> mh::HeaderTagType {
    use mh::HeaderTagType::*;
    match v % 11 {
        0 => End,
        1 => InformationRequest,
        2 => Address,
        3 => EntryAddress,
        4 => ConsoleFlags,
        5 => Framebuffer,
        6 => ModuleAlign,
        7 => EfiBS,
        8 => EntryAddressEFI32,
        9 => EntryAddressEFI64,
        _ => Relocatable,
    }
}

/// Specification table: boot-information tag type number → the crate's enum
/// variant (written from the specification, not from the crate's `From` impls).
pub fn tag_type_variant(n: u32) -> mb::TagType {
    use mb::TagType::*;
    match n {
        0 => End,
        1 => Cmdline,
        2 => BootLoaderName,
        3 => Module,
        4 => BasicMeminfo,
        5 => Bootdev,
        6 => Mmap,
        7 => Vbe,
        8 => Framebuffer,
        9 => ElfSections,
        10 => Apm,
        11 => Efi32,
        12 => Efi64,
        13 => Smbios,
        14 => AcpiV1,
        15 => AcpiV2,
        16 => Network,
        17 => EfiMmap,
        18 => EfiBs,
        19 => Efi32Ih,
        20 => Efi64Ih,
        21 => LoadBaseAddr,
        c => Custom(c),
    }
}

/// Specification table: memory-map entry type → enum variant
/// (1 available, 2 reserved, 3 ACPI reclaimable, 4 NVS, 5 bad RAM).
pub fn area_type_variant(n: u32) -> mb::MemoryAreaType {
    use mb::MemoryAreaType::*;
    match n {
        1 => Available,
        2 => Reserved,
        3 => AcpiAvailable,
        4 => ReservedHibernate,
        5 => Defective,
        c => Custom(c),
    }
}

/// `Some(text)` iff the op's string argument is usable (valid UTF-8).
pub fn str_arg(op: &Op) -> Option<&str> {
    std::str::from_utf8(op.bytes(0)).ok()
}

/// Whether the op's arguments are well-formed for the harness (not a verdict
/// about the library): ops that fail this are skipped.
pub fn args_usable(c: Ctor, op: &Op) -> bool {
    match c {
        Ctor::Cmdline | Ctor::BootLoaderName | Ctor::Module => str_arg(op).is_some(),
        Ctor::Framebuffer => a(op, 5) % 3 != 0 || op.bytes(0).len() / 3 < 65536,
        _ => true,
    }
}

/// Documented constructor preconditions. An op that violates one is an
/// `F-precondition` fault: the only expectation is a controlled panic.
pub fn violates_precondition(c: Ctor, op: &Op) -> bool {
    match c {
        Ctor::Module => (a(op, 1) as u32) <= (a(op, 0) as u32),
        Ctor::EfiMmapFromMap => a(op, 0) as u32 == 0,
        Ctor::Custom => (a(op, 0) as u32) < 22,
        _ => false,
    }
}

fn vbe_ctrl(bytes: &[u8]) -> mb::VBEControlInfo {
    let raw: [u8; 512] = fixed(bytes);
    // SAFETY: repr(C, packed), 512 bytes, every field is an integer, an
    // integer array or a bitflags newtype over an integer.
    unsafe { std::mem::transmute::<[u8; 512], mb::VBEControlInfo>(raw) }
}

fn vbe_mode_raw(bytes: &[u8]) -> [u8; 256] {
    let mut raw: [u8; 256] = fixed(bytes);
    // the one enum-typed byte (memory model, 0..=7) must hold a valid value
    raw[27] &= 7;
    raw
}

fn vbe_mode(bytes: &[u8]) -> mb::VBEModeInfo {
    let raw = vbe_mode_raw(bytes);
    // SAFETY: as above, with the enum byte constrained.
    unsafe { std::mem::transmute::<[u8; 256], mb::VBEModeInfo>(raw) }
}

// --- the same two blocks built *field by field* through the public fields.
// Offsets are those of the VBE 3.0 VbeInfoBlock / ModeInfoBlock (the structures
// the Multiboot2 specification says the tag embeds); private reserved areas
// stay at their `Default` (zero).

fn le16(b: &[u8], o: usize) -> u16 {
    u16::from_le_bytes([b[o], b[o + 1]])
}
fn le32(b: &[u8], o: usize) -> u32 {
    u32::from_le_bytes([b[o], b[o + 1], b[o + 2], b[o + 3]])
}

fn vbe_ctrl_fields(bytes: &[u8]) -> mb::VBEControlInfo {
    let r: [u8; 512] = fixed(bytes);
    let mut c = mb::VBEControlInfo::default();
    c.signature = [r[0], r[1], r[2], r[3]];
    c.version = le16(&r, 4);
    c.oem_string_ptr = le32(&r, 6);
    c.capabilities = mb::VBECapabilities::from_bits_retain(le32(&r, 10));
    c.mode_list_ptr = le32(&r, 14);
    c.total_memory = le16(&r, 18);
    c.oem_software_revision = le16(&r, 20);
    c.oem_vendor_name_ptr = le32(&r, 22);
    c.oem_product_name_ptr = le32(&r, 26);
    c.oem_product_revision_ptr = le32(&r, 30);
    c
}

/// VbeInfoBlock image expected for `vbe_ctrl_fields`: 34 defined bytes, then
/// the reserved area and the OEM scratch area (zero).
fn vbe_ctrl_fields_image(bytes: &[u8]) -> [u8; 512] {
    let r: [u8; 512] = fixed(bytes);
    let mut out = [0u8; 512];
    out[..34].copy_from_slice(&r[..34]);
    out
}

fn vbe_mode_fields(bytes: &[u8]) -> mb::VBEModeInfo {
    let r = vbe_mode_raw(bytes);
    let mut m = mb::VBEModeInfo::default();
    m.mode_attributes = mb::VBEModeAttributes::from_bits_retain(le16(&r, 0));
    m.window_a_attributes = mb::VBEWindowAttributes::from_bits_retain(r[2]);
    m.window_b_attributes = mb::VBEWindowAttributes::from_bits_retain(r[3]);
    m.window_granularity = le16(&r, 4);
    m.window_size = le16(&r, 6);
    m.window_a_segment = le16(&r, 8);
    m.window_b_segment = le16(&r, 10);
    m.window_function_ptr = le32(&r, 12);
    m.pitch = le16(&r, 16);
    m.resolution = (le16(&r, 18), le16(&r, 20));
    m.character_size = (r[22], r[23]);
    m.number_of_planes = r[24];
    m.bpp = r[25];
    m.number_of_banks = r[26];
    m.memory_model = match r[27] & 7 {
        0 => mb::VBEMemoryModel::Text,
        1 => mb::VBEMemoryModel::CGAGraphics,
        2 => mb::VBEMemoryModel::HerculesGraphics,
        3 => mb::VBEMemoryModel::Planar,
        4 => mb::VBEMemoryModel::PackedPixel,
        5 => mb::VBEMemoryModel::Unchained,
        6 => mb::VBEMemoryModel::DirectColor,
        _ => mb::VBEMemoryModel::YUV,
    };
    m.bank_size = r[28];
    m.number_of_image_pages = r[29];
    // r[30]: reserved
    m.red_field = mb::VBEField { size: r[31], position: r[32] };
    m.green_field = mb::VBEField { size: r[33], position: r[34] };
    m.blue_field = mb::VBEField { size: r[35], position: r[36] };
    m.reserved_field = mb::VBEField { size: r[37], position: r[38] };
    m.direct_color_attributes = mb::VBEDirectColorAttributes::from_bits_retain(r[39]);
    m.framebuffer_base_ptr = le32(&r, 40);
    m.offscreen_memory_offset = le32(&r, 44);
    m.offscreen_memory_size = le16(&r, 48);
    m
}

fn vbe_mode_fields_image(bytes: &[u8]) -> [u8; 256] {
    let r = vbe_mode_raw(bytes);
    let mut out = [0u8; 256];
    out[..50].copy_from_slice(&r[..50]);
    out[30] = 0;
    out
}

fn vbe_args(op: &Op) -> (mb::VBEControlInfo, mb::VBEModeInfo) {
    if a(op, 4) % 2 == 1 {
        (vbe_ctrl_fields(op.bytes(0)), vbe_mode_fields(op.bytes(1)))
    } else {
        (vbe_ctrl(op.bytes(0)), vbe_mode(op.bytes(1)))
    }
}

/// 8-aligned, fully initialised storage for `n` EFI descriptors built from
/// raw 40-byte images (so the harness never exposes uninitialised padding).
pub struct DescStore {
    words: Vec<u64>,
    n: usize,
}

impl DescStore {
    pub fn new(raw: &[u8]) -> Self {
        let n = raw.len() / 40;
        let mut words = vec![0u64; n * 5];
        for (i, chunk) in raw[..n * 40].chunks(8).enumerate() {
            words[i] = u64::from_le_bytes(chunk.try_into().unwrap());
        }
        Self { words, n }
    }
    pub fn descs(&self) -> &[mb::EFIMemoryDesc] {
        assert_eq!(std::mem::size_of::<mb::EFIMemoryDesc>(), 40);
        // SAFETY: 8-aligned, 40·n initialised bytes; every field of the
        // descriptor accepts any bit pattern (u32/u64 newtypes).
        unsafe { std::slice::from_raw_parts(self.words.as_ptr().cast(), self.n) }
    }
    pub fn raw(&self) -> Vec<u8> {
        self.words.iter().flat_map(|w| w.to_le_bytes()).collect()
    }
}

// ---------------------------------------------------------------------------
// Built values
// ---------------------------------------------------------------------------

pub enum Built {
    Cmdline(Box<mb::CommandLineTag>),
    BootLoaderName(Box<mb::BootLoaderNameTag>),
    Module(Box<mb::ModuleTag>),
    BasicMeminfo(mb::BasicMemoryInfoTag),
    Bootdev(mb::BootdevTag),
    Mmap(Box<mb::MemoryMapTag>),
    Vbe(Box<mb::VBEInfoTag>), // 784 bytes by value; boxed harness-side only to keep this enum small
    Framebuffer(Box<mb::FramebufferTag>),
    ElfSections(Box<mb::ElfSectionsTag>),
    Apm(mb::ApmTag),
    Efi32(mb::EFISdt32Tag),
    Efi64(mb::EFISdt64Tag),
    Smbios(Box<mb::SmbiosTag>),
    RsdpV1(mb::RsdpV1Tag),
    RsdpV2(mb::RsdpV2Tag),
    Network(Box<mb::NetworkTag>),
    EfiMmap(Box<mb::EFIMemoryMapTag>),
    EfiBs(mb::EFIBootServicesNotExitedTag),
    Efi32Ih(mb::EFIImageHandle32Tag),
    Efi64Ih(mb::EFIImageHandle64Tag),
    ImageLoadAddr(mb::ImageLoadPhysAddrTag),
    End(mb::EndTag),
    TagHdr(mb::TagHeader),
    MemArea(mb::MemoryArea),
    Custom(Box<mb::DynSizedStructure<mb::TagHeader>>),
    HInfoReq(Box<mh::InformationRequestHeaderTag>),
    HAddress(mh::AddressHeaderTag),
    HEntryAddress(mh::EntryAddressHeaderTag),
    HConsole(mh::ConsoleHeaderTag),
    HFramebuffer(mh::FramebufferHeaderTag),
    HModuleAlign(mh::ModuleAlignHeaderTag),
    HEfiBs(mh::EfiBootServiceHeaderTag),
    HEntryEfi32(mh::EntryEfi32HeaderTag),
    HEntryEfi64(mh::EntryEfi64HeaderTag),
    HRelocatable(mh::RelocatableHeaderTag),
    HEnd(mh::EndHeaderTag),
    HTagHdr(mh::HeaderTagHeader),
}

/// Calls the real constructor. The caller holds the allocator scope and
/// catches unwinds.
pub fn build(c: Ctor, op: &Op) -> Built {
    match c {
        // b[0] = text
        Ctor::Cmdline => Built::Cmdline(mb::CommandLineTag::new(str_arg(op).unwrap())),
        Ctor::BootLoaderName => Built::BootLoaderName(mb::BootLoaderNameTag::new(str_arg(op).unwrap())),
        // a = [start, end], b[0] = text
        Ctor::Module => Built::Module(mb::ModuleTag::new(a(op, 0) as u32, a(op, 1) as u32, str_arg(op).unwrap())),
        // a = [lower, upper]
        Ctor::BasicMeminfo => Built::BasicMeminfo(mb::BasicMemoryInfoTag::new(a(op, 0) as u32, a(op, 1) as u32)),
        // a = [biosdev, slice, part]
        Ctor::Bootdev => Built::Bootdev(mb::BootdevTag::new(a(op, 0) as u32, a(op, 1) as u32, a(op, 2) as u32)),
        // b[0] = n × (base u64, len u64, typ u32) little endian
        Ctor::Mmap => {
            let areas = mmap_areas(op);
            Built::Mmap(mb::MemoryMapTag::new(&areas))
        }
        // a = [mode, seg, off, len, via_fields], b[0] = 512 control bytes, b[1] = 256 mode bytes
        // (via_fields: the two VBE blocks are filled through their public fields
        // instead of being transmuted from raw bytes)
        Ctor::Vbe => {
            let t = mb::VBEInfoTag::new(
                a(op, 0) as u16,
                a(op, 1) as u16,
                a(op, 2) as u16,
                a(op, 3) as u16,
                vbe_args(op).0,
                vbe_args(op).1,
            );
            // The by-value result is what is under test; this Box is made
            // outside the simulated heap and is only a container.
            Built::Vbe(unscoped_box(t))
        }
        // a = [addr, pitch, w, h, bpp, kind(0 indexed,1 rgb,2 text)], b[0] = palette (3n) or 6 rgb bytes
        Ctor::Framebuffer => {
            let palette: Vec<mb::FramebufferColor>;
            let ty = match a(op, 5) % 3 {
                0 => {
                    palette = fb_palette(op);
                    mb::FramebufferType::Indexed { palette: &palette }
                }
                1 => {
                    let f: [u8; 6] = fixed(op.bytes(0));
                    mb::FramebufferType::RGB {
                        red: mb::FramebufferField { position: f[0], size: f[1] },
                        green: mb::FramebufferField { position: f[2], size: f[3] },
                        blue: mb::FramebufferField { position: f[4], size: f[5] },
                    }
                }
                _ => mb::FramebufferType::Text,
            };
            Built::Framebuffer(mb::FramebufferTag::new(
                a(op, 0),
                a(op, 1) as u32,
                a(op, 2) as u32,
                a(op, 3) as u32,
                a(op, 4) as u8,
                ty,
            ))
        }
        // a = [n, entsize, shndx], b[0] = section bytes
        Ctor::ElfSections => {
            Built::ElfSections(mb::ElfSectionsTag::new(a(op, 0) as u32, a(op, 1) as u32, a(op, 2) as u32, op.bytes(0)))
        }
        // a = [version, cseg, offset, cseg_16, dseg, flags, cseg_len, cseg_16_len, dseg_len]
        Ctor::Apm => Built::Apm(mb::ApmTag::new(
            a(op, 0) as u16,
            a(op, 1) as u16,
            a(op, 2) as u32,
            a(op, 3) as u16,
            a(op, 4) as u16,
            a(op, 5) as u16,
            a(op, 6) as u16,
            a(op, 7) as u16,
            a(op, 8) as u16,
        )),
        Ctor::Efi32 => Built::Efi32(mb::EFISdt32Tag::new(a(op, 0) as u32)),
        Ctor::Efi64 => Built::Efi64(mb::EFISdt64Tag::new(a(op, 0))),
        // a = [major, minor], b[0] = tables
        Ctor::Smbios => Built::Smbios(mb::SmbiosTag::new(a(op, 0) as u8, a(op, 1) as u8, op.bytes(0))),
        // a = [checksum, revision, rsdt], b[0] = oem id (6)
        Ctor::RsdpV1 => {
            Built::RsdpV1(mb::RsdpV1Tag::new(a(op, 0) as u8, fixed(op.bytes(0)), a(op, 1) as u8, a(op, 2) as u32))
        }
        // a = [checksum, revision, rsdt, length, xsdt, ext_checksum], b[0] = oem id (6)
        Ctor::RsdpV2 => Built::RsdpV2(mb::RsdpV2Tag::new(
            a(op, 0) as u8,
            fixed(op.bytes(0)),
            a(op, 1) as u8,
            a(op, 2) as u32,
            a(op, 3) as u32,
            a(op, 4),
            a(op, 5) as u8,
        )),
        Ctor::Network => Built::Network(mb::NetworkTag::new(op.bytes(0))),
        // a = [desc_size, desc_version], b[0] = map bytes
        Ctor::EfiMmapFromMap => {
            Built::EfiMmap(mb::EFIMemoryMapTag::new_from_map(a(op, 0) as u32, a(op, 1) as u32, op.bytes(0)))
        }
        // b[0] = n × 40 raw descriptor bytes
        Ctor::EfiMmapFromDescs => {
            let store = {
                let _off = ScopeOff::new();
                DescStore::new(op.bytes(0))
            };
            let r = Built::EfiMmap(mb::EFIMemoryMapTag::new_from_descs(store.descs()));
            let _off = ScopeOff::new();
            drop(store);
            r
        }
        Ctor::EfiBsNew => Built::EfiBs(mb::EFIBootServicesNotExitedTag::new()),
        Ctor::EfiBsDefault => Built::EfiBs(mb::EFIBootServicesNotExitedTag::default()),
        Ctor::Efi32Ih => Built::Efi32Ih(mb::EFIImageHandle32Tag::new(a(op, 0) as u32)),
        Ctor::Efi64Ih => Built::Efi64Ih(mb::EFIImageHandle64Tag::new(a(op, 0))),
        Ctor::ImageLoadAddr => Built::ImageLoadAddr(mb::ImageLoadPhysAddrTag::new(a(op, 0) as u32)),
        Ctor::EndDefault => Built::End(mb::EndTag::default()),
        // a = [typ, size]
        // a = [typ, size, via_enum]: the type argument is `impl Into<TagTypeId>`
        Ctor::TagHdrNew => Built::TagHdr(if a(op, 2) % 2 == 1 {
            mb::TagHeader::new(tag_type_variant(a(op, 0) as u32), a(op, 1) as u32)
        } else {
            mb::TagHeader::new(a(op, 0) as u32, a(op, 1) as u32)
        }),
        // a = [base, len, typ]
        // a = [base, len, typ, via_enum]: the type argument is `impl Into<MemoryAreaTypeId>`
        Ctor::MemAreaNew => Built::MemArea(if a(op, 3) % 2 == 1 {
            mb::MemoryArea::new(a(op, 0), a(op, 1), area_type_variant(a(op, 2) as u32))
        } else {
            mb::MemoryArea::new(a(op, 0), a(op, 1), a(op, 2) as u32)
        }),
        // a = [typ], b[0] = content  (new_boxed; used to feed add_custom_tag)
        Ctor::Custom => Built::Custom(multiboot2_common::new_boxed::<mb::DynSizedStructure<mb::TagHeader>>(
            mb::TagHeader::new(a(op, 0) as u32, 0),
            &[op.bytes(0)],
        )),
        // a = [flags], b[0] = n × u32 LE
        Ctor::HInfoReq => {
            let reqs = {
                let _off = ScopeOff::new();
                info_reqs(op)
            };
            let r = Built::HInfoReq(mh::InformationRequestHeaderTag::new(hflag(a(op, 0)), &reqs));
            let _off = ScopeOff::new();
            drop(reqs);
            r
        }
        // a = [flags, header_addr, load_addr, load_end_addr, bss_end_addr]
        Ctor::HAddress => Built::HAddress(mh::AddressHeaderTag::new(
            hflag(a(op, 0)),
            a(op, 1) as u32,
            a(op, 2) as u32,
            a(op, 3) as u32,
            a(op, 4) as u32,
        )),
        Ctor::HEntryAddress => Built::HEntryAddress(mh::EntryAddressHeaderTag::new(hflag(a(op, 0)), a(op, 1) as u32)),
        // a = [flags, console_flags(0,1)]
        Ctor::HConsole => Built::HConsole(mh::ConsoleHeaderTag::new(
            hflag(a(op, 0)),
            if a(op, 1) % 2 == 0 {
                mh::ConsoleHeaderTagFlags::ConsoleRequired
            } else {
                mh::ConsoleHeaderTagFlags::EgaTextSupported
            },
        )),
        // a = [flags, w, h, depth]
        Ctor::HFramebuffer => Built::HFramebuffer(mh::FramebufferHeaderTag::new(
            hflag(a(op, 0)),
            a(op, 1) as u32,
            a(op, 2) as u32,
            a(op, 3) as u32,
        )),
        Ctor::HModuleAlign => Built::HModuleAlign(mh::ModuleAlignHeaderTag::new(hflag(a(op, 0)))),
        Ctor::HEfiBs => Built::HEfiBs(mh::EfiBootServiceHeaderTag::new(hflag(a(op, 0)))),
        Ctor::HEntryEfi32 => Built::HEntryEfi32(mh::EntryEfi32HeaderTag::new(hflag(a(op, 0)), a(op, 1) as u32)),
        Ctor::HEntryEfi64 => Built::HEntryEfi64(mh::EntryEfi64HeaderTag::new(hflag(a(op, 0)), a(op, 1) as u32)),
        // a = [flags, min, max, align, preference(0..2)]
        Ctor::HRelocatable => Built::HRelocatable(mh::RelocatableHeaderTag::new(
            hflag(a(op, 0)),
            a(op, 1) as u32,
            a(op, 2) as u32,
            a(op, 3) as u32,
            match a(op, 4) % 3 {
                0 => mh::RelocatableHeaderTagPreference::None,
                1 => mh::RelocatableHeaderTagPreference::Low,
                _ => mh::RelocatableHeaderTagPreference::High,
            },
        )),
        Ctor::HEndNew => Built::HEnd(mh::EndHeaderTag::new()),
        Ctor::HEndDefault => Built::HEnd(mh::EndHeaderTag::default()),
        // a = [typ(0..10), flags, size]
        Ctor::HTagHdrNew => Built::HTagHdr(mh::HeaderTagHeader::new(htype(a(op, 0)), hflag(a(op, 1)), a(op, 2) as u32)),
    }
}

/// Fills the stack region below the caller with a known byte, so that any
/// byte of a by-value result that its constructor does not write (struct
/// padding inside the declared size, a conditionally written scratch buffer)
/// is deterministic and distinguishable instead of "whatever was there".
#[inline(never)]
pub fn dirty_stack(pattern: u8) {
    if cfg!(miri) {
        // Miri tracks uninitialised memory itself; the loop below would only
        // cost interpretation time
        return;
    }
    let mut buf = [0u8; 24 * 1024];
    for (i, b) in buf.iter_mut().enumerate() {
        *b = pattern ^ ((i >> 12) as u8 & 1); // not a plain memset the optimiser may elide
    }
    std::hint::black_box(&mut buf);
}

/// Temporarily leaves the allocator scope (harness-side temporaries that are
/// created in the middle of a library call sequence).
pub struct ScopeOff(bool);
impl ScopeOff {
    pub fn new() -> Self {
        let was = crate::simalloc::is_active();
        crate::simalloc::deactivate();
        ScopeOff(was)
    }
}
impl Drop for ScopeOff {
    fn drop(&mut self) {
        if self.0 {
            std::mem::forget(Scope::enter());
        }
    }
}

fn unscoped_box<T>(t: T) -> Box<T> {
    let _off = ScopeOff::new();
    Box::new(t)
}

fn mmap_areas(op: &Op) -> Vec<mb::MemoryArea> {
    let _off = ScopeOff::new();
    op.bytes(0)
        .chunks_exact(20)
        .map(|c| {
            let (base, len, typ) = (
                u64::from_le_bytes(c[0..8].try_into().unwrap()),
                u64::from_le_bytes(c[8..16].try_into().unwrap()),
                u32::from_le_bytes(c[16..20].try_into().unwrap()),
            );
            if a(op, 0) % 2 == 1 {
                mb::MemoryArea::new(base, len, area_type_variant(typ))
            } else {
                mb::MemoryArea::new(base, len, typ)
            }
        })
        .collect()
}

fn fb_palette(op: &Op) -> Vec<mb::FramebufferColor> {
    let _off = ScopeOff::new();
    op.bytes(0).chunks_exact(3).map(|c| mb::FramebufferColor { red: c[0], green: c[1], blue: c[2] }).collect()
}

fn info_reqs(op: &Op) -> Vec<mh::MbiTagTypeId> {
    op.bytes(0)
        .chunks_exact(4)
        .map(|c| {
            let n = u32::from_le_bytes(c.try_into().unwrap());
            if a(op, 1) % 2 == 1 {
                tag_type_variant(n).into()
            } else {
                mh::MbiTagTypeId::new(n)
            }
        })
        .collect()
}

// ---------------------------------------------------------------------------
// Spec encoder (authority: multiboot2.h of the Multiboot2 specification)
// ---------------------------------------------------------------------------

#[derive(Clone, Debug, Default)]
pub struct Spec {
    /// full unpadded image, header included
    pub image: Vec<u8>,
    /// byte ranges of `image` whose content the specification leaves open
    pub dont_care: Vec<(usize, usize)>,
    /// specification type number
    pub typ: u32,
    /// not a tag (header-only value or map element): no size/type fields to judge
    pub plain: bool,
}

struct Enc(Vec<u8>);
impl Enc {
    fn u8(&mut self, v: u64) -> &mut Self {
        self.0.push(v as u8);
        self
    }
    fn u16(&mut self, v: u64) -> &mut Self {
        self.0.extend_from_slice(&(v as u16).to_le_bytes());
        self
    }
    fn u32(&mut self, v: u64) -> &mut Self {
        self.0.extend_from_slice(&(v as u32).to_le_bytes());
        self
    }
    fn u64(&mut self, v: u64) -> &mut Self {
        self.0.extend_from_slice(&v.to_le_bytes());
        self
    }
    fn raw(&mut self, b: &[u8]) -> &mut Self {
        self.0.extend_from_slice(b);
        self
    }
    fn zeros(&mut self, n: usize) -> &mut Self {
        self.0.extend(std::iter::repeat(0).take(n));
        self
    }
    fn cstr(&mut self, s: &[u8]) -> &mut Self {
        self.0.extend_from_slice(s);
        if s.last() != Some(&0) {
            self.0.push(0);
        }
        self
    }
}

/// MBI tag: u32 type, u32 size, body.
fn mbi(typ: u32, body: Enc) -> Spec {
    let mut image = Vec::with_capacity(8 + body.0.len());
    image.extend_from_slice(&typ.to_le_bytes());
    image.extend_from_slice(&((8 + body.0.len()) as u32).to_le_bytes());
    image.extend_from_slice(&body.0);
    Spec { image, dont_care: vec![], typ, plain: false }
}

/// Header tag: u16 type, u16 flags, u32 size, body.
fn hdr(typ: u16, flags: u64, body: Enc) -> Spec {
    let mut image = Vec::with_capacity(8 + body.0.len());
    image.extend_from_slice(&typ.to_le_bytes());
    image.extend_from_slice(&((flags % 2) as u16).to_le_bytes());
    image.extend_from_slice(&((8 + body.0.len()) as u32).to_le_bytes());
    image.extend_from_slice(&body.0);
    Spec { image, dont_care: vec![], typ: typ as u32, plain: false }
}

pub fn spec(c: Ctor, op: &Op) -> Spec {
    let mut e = Enc(Vec::new());
    match c {
        Ctor::Cmdline => {
            e.cstr(op.bytes(0));
            mbi(1, e)
        }
        Ctor::BootLoaderName => {
            e.cstr(op.bytes(0));
            mbi(2, e)
        }
        Ctor::Module => {
            e.u32(a(op, 0)).u32(a(op, 1)).cstr(op.bytes(0));
            mbi(3, e)
        }
        Ctor::BasicMeminfo => {
            e.u32(a(op, 0)).u32(a(op, 1));
            mbi(4, e)
        }
        Ctor::Bootdev => {
            e.u32(a(op, 0)).u32(a(op, 1)).u32(a(op, 2));
            mbi(5, e)
        }
        Ctor::Mmap => {
            e.u32(24).u32(0);
            for ch in op.bytes(0).chunks_exact(20) {
                e.raw(&ch[0..16]).raw(&ch[16..20]).u32(0);
            }
            mbi(6, e)
        }
        Ctor::Vbe => {
            e.u16(a(op, 0)).u16(a(op, 1)).u16(a(op, 2)).u16(a(op, 3));
            if a(op, 4) % 2 == 1 {
                e.raw(&vbe_ctrl_fields_image(op.bytes(0))).raw(&vbe_mode_fields_image(op.bytes(1)));
            } else {
                e.raw(&fixed::<512>(op.bytes(0))).raw(&vbe_mode_raw(op.bytes(1)));
            }
            mbi(7, e)
        }
        Ctor::Framebuffer => {
            let kind = a(op, 5) % 3;
            e.u64(a(op, 0)).u32(a(op, 1)).u32(a(op, 2)).u32(a(op, 3)).u8(a(op, 4)).u8(kind).u16(0);
            match kind {
                0 => {
                    let n = op.bytes(0).len() / 3;
                    e.u16(n as u64).raw(&op.bytes(0)[..n * 3]);
                }
                1 => {
                    e.raw(&fixed::<6>(op.bytes(0)));
                }
                _ => {}
            }
            mbi(8, e)
        }
        Ctor::ElfSections => {
            e.u32(a(op, 0)).u32(a(op, 1)).u32(a(op, 2)).raw(op.bytes(0));
            mbi(9, e)
        }
        Ctor::Apm => {
            e.u16(a(op, 0)).u16(a(op, 1)).u32(a(op, 2));
            for i in 3..9 {
                e.u16(a(op, i));
            }
            mbi(10, e)
        }
        Ctor::Efi32 => {
            e.u32(a(op, 0));
            mbi(11, e)
        }
        Ctor::Efi64 => {
            e.u64(a(op, 0));
            mbi(12, e)
        }
        Ctor::Smbios => {
            e.u8(a(op, 0)).u8(a(op, 1)).zeros(6).raw(op.bytes(0));
            mbi(13, e)
        }
        Ctor::RsdpV1 => {
            e.raw(b"RSD PTR ").u8(a(op, 0)).raw(&fixed::<6>(op.bytes(0))).u8(a(op, 1)).u32(a(op, 2));
            mbi(14, e)
        }
        Ctor::RsdpV2 => {
            e.raw(b"RSD PTR ").u8(a(op, 0)).raw(&fixed::<6>(op.bytes(0))).u8(a(op, 1)).u32(a(op, 2));
            e.u32(a(op, 3)).u64(a(op, 4)).u8(a(op, 5)).zeros(3);
            mbi(15, e)
        }
        Ctor::Network => {
            e.raw(op.bytes(0));
            mbi(16, e)
        }
        Ctor::EfiMmapFromMap => {
            e.u32(a(op, 0)).u32(a(op, 1)).raw(op.bytes(0));
            mbi(17, e)
        }
        Ctor::EfiMmapFromDescs => {
            let n = op.bytes(0).len() / 40;
            e.u32(40).u32(1).raw(&op.bytes(0)[..n * 40]);
            let mut s = mbi(17, e);
            // the 4 bytes after a descriptor's u32 type are struct padding of
            // the UEFI descriptor: the specification does not define them
            for i in 0..n {
                s.dont_care.push((16 + 40 * i + 4, 16 + 40 * i + 8));
            }
            s
        }
        Ctor::EfiBsNew | Ctor::EfiBsDefault => mbi(18, e),
        Ctor::Efi32Ih => {
            e.u32(a(op, 0));
            mbi(19, e)
        }
        Ctor::Efi64Ih => {
            e.u64(a(op, 0));
            mbi(20, e)
        }
        Ctor::ImageLoadAddr => {
            e.u32(a(op, 0));
            mbi(21, e)
        }
        Ctor::EndDefault => mbi(0, e),
        Ctor::TagHdrNew => {
            e.u32(a(op, 0)).u32(a(op, 1));
            Spec { image: e.0, dont_care: vec![], typ: a(op, 0) as u32, plain: true }
        }
        Ctor::MemAreaNew => {
            e.u64(a(op, 0)).u64(a(op, 1)).u32(a(op, 2)).u32(0);
            Spec { image: e.0, dont_care: vec![], typ: 0, plain: true }
        }
        Ctor::Custom => {
            e.raw(op.bytes(0));
            mbi(a(op, 0) as u32, e)
        }
        Ctor::HInfoReq => {
            let n = op.bytes(0).len() / 4;
            e.raw(&op.bytes(0)[..n * 4]);
            hdr(1, a(op, 0), e)
        }
        Ctor::HAddress => {
            e.u32(a(op, 1)).u32(a(op, 2)).u32(a(op, 3)).u32(a(op, 4));
            hdr(2, a(op, 0), e)
        }
        Ctor::HEntryAddress => {
            e.u32(a(op, 1));
            hdr(3, a(op, 0), e)
        }
        Ctor::HConsole => {
            e.u32(a(op, 1) % 2);
            hdr(4, a(op, 0), e)
        }
        Ctor::HFramebuffer => {
            e.u32(a(op, 1)).u32(a(op, 2)).u32(a(op, 3));
            hdr(5, a(op, 0), e)
        }
        Ctor::HModuleAlign => hdr(6, a(op, 0), e),
        Ctor::HEfiBs => hdr(7, a(op, 0), e),
        Ctor::HEntryEfi32 => {
            e.u32(a(op, 1));
            hdr(8, a(op, 0), e)
        }
        Ctor::HEntryEfi64 => {
            e.u32(a(op, 1));
            hdr(9, a(op, 0), e)
        }
        Ctor::HRelocatable => {
            e.u32(a(op, 1)).u32(a(op, 2)).u32(a(op, 3)).u32(a(op, 4) % 3);
            hdr(10, a(op, 0), e)
        }
        Ctor::HEndNew | Ctor::HEndDefault => hdr(0, 0, e),
        Ctor::HTagHdrNew => {
            e.u16(a(op, 0) % 11).u16(a(op, 1) % 2).u32(a(op, 2));
            Spec { image: e.0, dont_care: vec![], typ: (a(op, 0) % 11) as u32, plain: true }
        }
    }
}

// ---------------------------------------------------------------------------
// Observation helpers
// ---------------------------------------------------------------------------

pub fn panic_text(p: Box<dyn std::any::Any + Send>) -> String {
    if let Some(s) = p.downcast_ref::<&str>() {
        s.to_string()
    } else if let Some(s) = p.downcast_ref::<String>() {
        s.clone()
    } else {
        "<non-string panic>".into()
    }
}

/// `as_bytes()` of any tag, copied out; `Err` carries the panic text.
pub fn image_of<T: MaybeDynSized + ?Sized>(t: &T) -> Result<Vec<u8>, String> {
    let _off = ScopeOff::new();
    catch_unwind(AssertUnwindSafe(|| {
        let b = t.as_bytes();
        let s: &[u8] = &b;
        s.to_vec()
    }))
    .map_err(panic_text)
}

/// Address and length of the `as_bytes()` view (no bytes are read).
pub fn view_of<T: MaybeDynSized + ?Sized>(t: &T) -> Result<(usize, usize), String> {
    let _off = ScopeOff::new();
    catch_unwind(AssertUnwindSafe(|| {
        let b = t.as_bytes();
        let s: &[u8] = &b;
        (s.as_ptr() as usize, s.len())
    }))
    .map_err(panic_text)
}

pub fn addr_of<T: ?Sized>(t: &T) -> usize {
    t as *const T as *const u8 as usize
}

fn raw_bytes_of<T>(t: &T) -> Vec<u8> {
    // SAFETY: used only for the three padding-free plain-integer structs
    // (TagHeader, MemoryArea, HeaderTagHeader).
    unsafe { std::slice::from_raw_parts(t as *const T as *const u8, std::mem::size_of::<T>()) }.to_vec()
}

#[repr(C)]
struct Shift<T> {
    pad: u32,
    val: T,
}

#[derive(Clone, Debug)]
pub struct Finding {
    pub clause: &'static str,
    pub detail: String,
}

/// A live constructed tag kept in the object table.
pub trait Held {
    fn image(&self) -> Result<Vec<u8>, String>;
    fn addr(&self) -> usize;
}

impl<T: MaybeDynSized + ?Sized> Held for Box<T> {
    fn image(&self) -> Result<Vec<u8>, String> {
        image_of::<T>(self)
    }
    fn addr(&self) -> usize {
        addr_of::<T>(self)
    }
}

pub struct Checked {
    pub findings: Vec<Finding>,
    /// hash input for the environment-independence transcript
    pub observed: Vec<u8>,
    pub held: Option<Box<dyn Held>>,
    /// by-value tag ended up at an address ≡ align (mod 2·align)
    pub minaligned_placement: bool,
}

fn compare_image(findings: &mut Vec<Finding>, sp: &Spec, img: &[u8], where_: &str) {
    if sp.plain {
        if img != sp.image.as_slice() {
            findings.push(Finding { clause: "bytes", detail: format!("{where_}: got {} want {}", hex(img), hex(&sp.image)) });
        }
        return;
    }
    if img.len() < 8 {
        findings.push(Finding { clause: "bytes", detail: format!("{where_}: byte view shorter than a tag header ({})", img.len()) });
        return;
    }
    let want = &sp.image;
    if img[0..4] != want[0..4] {
        findings.push(Finding { clause: "type", detail: format!("{where_}: type/flags field {} want {}", hex(&img[0..4]), hex(&want[0..4])) });
    }
    let size = u32::from_le_bytes(img[4..8].try_into().unwrap()) as usize;
    if size != want.len() {
        findings.push(Finding { clause: "size", detail: format!("{where_}: size field {} want unpadded {}", size, want.len()) });
    }
    if img.len() % 8 != 0 || img.len() < want.len() || img.len() >= want.len() + 8 {
        findings.push(Finding {
            clause: "view-len",
            detail: format!("{where_}: byte view has {} bytes for an unpadded size of {}", img.len(), want.len()),
        });
    }
    let n = want.len().min(img.len());
    let mut first_bad = None;
    for i in 8..n {
        if sp.dont_care.iter().any(|&(lo, hi)| i >= lo && i < hi) {
            continue;
        }
        if img[i] != want[i] {
            first_bad = Some(i);
            break;
        }
    }
    if let Some(i) = first_bad {
        findings.push(Finding {
            clause: "bytes",
            detail: format!("{where_}: byte {} is {:#04x}, spec encoding has {:#04x}; got {} want {}", i, img[i], want[i], hex(&img[..n]), hex(&want[..n])),
        });
    }
}

pub fn hex(b: &[u8]) -> String {
    let mut s = String::with_capacity(b.len() * 2);
    for (i, x) in b.iter().enumerate() {
        if i >= 96 {
            s.push_str("..");
            break;
        }
        s.push_str(&format!("{x:02x}"));
    }
    s
}

/// By-value tag: byte view at three placements that satisfy `align_of::<T>()`
/// — the caller's stack, the second field of a `repr(C)` struct on the
/// simulated heap, and `Box::new` on the simulated heap — then kept boxed.
fn check_sized<T: MaybeDynSized + 'static>(val: T, sp: &Spec, out: &mut Checked) -> Box<T> {
    let align = std::mem::align_of::<T>();
    let mut record = |name: &str, t: &T, out: &mut Checked| {
        let addr = addr_of(t);
        match image_of(t) {
            Ok(img) => {
                compare_image(&mut out.findings, sp, &img, name);
                out.observed.extend_from_slice(&img[..img.len().min(sp.image.len())]);
            }
            Err(msg) => out.findings.push(Finding {
                clause: "placement",
                detail: format!(
                    "as_bytes() panicked for a value at {name} (address ≡ {} mod 8, align_of = {align}): {msg}",
                    addr % 8
                ),
            }),
        }
        if addr % (2 * align) != 0 {
            out.minaligned_placement = true;
        }
    };
    record("stack", &val, out);
    let shifted = {
        let _s = Scope::enter();
        Box::new(Shift { pad: 0, val })
    };
    record("struct-field", &shifted.val, out);
    let Shift { pad: _, val } = *shifted;
    let boxed = {
        let _s = Scope::enter();
        Box::new(val)
    };
    record("box", &boxed, out);
    boxed
}

fn check_dst<T: MaybeDynSized + ?Sized>(t: &T, sp: &Spec, out: &mut Checked) {
    match image_of(t) {
        Ok(img) => {
            compare_image(&mut out.findings, sp, &img, "heap");
            out.observed.extend_from_slice(&img[..img.len().min(sp.image.len())]);
        }
        Err(msg) => out.findings.push(Finding { clause: "placement", detail: format!("as_bytes() panicked for a heap tag: {msg}") }),
    }
}

fn rb<V: PartialEq + std::fmt::Debug>(out: &mut Checked, what: &str, got: V, want: V) {
    {
        let _off = ScopeOff::new();
        out.observed.extend_from_slice(format!("{what}={got:?};").as_bytes());
    }
    if got != want {
        out.findings.push(Finding { clause: "readback", detail: format!("{what}: got {got:?}, argument was {want:?}") });
    }
}

fn idc(out: &mut Checked, got: u32, sp: &Spec) {
    if got != sp.typ {
        out.findings.push(Finding { clause: "id-const", detail: format!("Tag::ID is {got}, specification number is {}", sp.typ) });
    }
}

fn cstr_prefix(b: &[u8]) -> &[u8] {
    match b.iter().position(|&x| x == 0) {
        Some(i) => &b[..i],
        None => b,
    }
}

fn hdr_fields(out: &mut Checked, typ: mh::HeaderTagType, flags: mh::HeaderTagFlag, size: u32, sp: &Spec, op: &Op) {
    rb(out, "typ()", typ as u16 as u32, sp.typ);
    rb(out, "flags()", flags as u16 as u64, if sp.typ == 0 { 0 } else { a(op, 0) % 2 });
    rb(out, "size()", size as usize, sp.image.len());
}

impl Built {
    /// Compares the constructed value with the spec image at every placement,
    /// reads it back through its accessors, and returns it as a held object.
    pub fn check(self, c: Ctor, op: &Op) -> Checked {
        let sp = spec(c, op);
        let mut out = Checked { findings: vec![], observed: vec![], held: None, minaligned_placement: false };
        macro_rules! keep {
            ($b:expr) => {{
                let _off = ScopeOff::new();
                let h: Box<dyn Held> = Box::new($b);
                out.held = Some(h);
            }};
        }
        match self {
            Built::Cmdline(t) => {
                check_dst(&*t, &sp, &mut out);
                idc(&mut out, mb::CommandLineTag::ID.val(), &sp);
                rb(&mut out, "cmdline()", t.cmdline().ok().map(|s| s.as_bytes().to_vec()), Some(cstr_prefix(op.bytes(0)).to_vec()));
                keep!(t);
            }
            Built::BootLoaderName(t) => {
                check_dst(&*t, &sp, &mut out);
                idc(&mut out, mb::BootLoaderNameTag::ID.val(), &sp);
                rb(&mut out, "name()", t.name().ok().map(|s| s.as_bytes().to_vec()), Some(cstr_prefix(op.bytes(0)).to_vec()));
                rb(&mut out, "typ()", t.typ().val(), sp.typ);
                rb(&mut out, "size()", t.size(), sp.image.len());
                keep!(t);
            }
            Built::Module(t) => {
                check_dst(&*t, &sp, &mut out);
                idc(&mut out, mb::ModuleTag::ID.val(), &sp);
                rb(&mut out, "start_address()", t.start_address(), a(op, 0) as u32);
                rb(&mut out, "end_address()", t.end_address(), a(op, 1) as u32);
                rb(&mut out, "module_size()", t.module_size(), (a(op, 1) as u32).wrapping_sub(a(op, 0) as u32));
                rb(&mut out, "cmdline()", t.cmdline().ok().map(|s| s.as_bytes().to_vec()), Some(cstr_prefix(op.bytes(0)).to_vec()));
                keep!(t);
            }
            Built::BasicMeminfo(v) => {
                let t = check_sized(v, &sp, &mut out);
                idc(&mut out, mb::BasicMemoryInfoTag::ID.val(), &sp);
                rb(&mut out, "memory_lower()", t.memory_lower(), a(op, 0) as u32);
                rb(&mut out, "memory_upper()", t.memory_upper(), a(op, 1) as u32);
                keep!(t);
            }
            Built::Bootdev(v) => {
                let t = check_sized(v, &sp, &mut out);
                idc(&mut out, mb::BootdevTag::ID.val(), &sp);
                rb(&mut out, "biosdev()", t.biosdev(), a(op, 0) as u32);
                rb(&mut out, "slice()", t.slice(), a(op, 1) as u32);
                rb(&mut out, "part()", t.part(), a(op, 2) as u32);
                keep!(t);
            }
            Built::Mmap(t) => {
                check_dst(&*t, &sp, &mut out);
                idc(&mut out, mb::MemoryMapTag::ID.val(), &sp);
                rb(&mut out, "entry_size()", t.entry_size(), 24);
                rb(&mut out, "entry_version()", t.entry_version(), 0);
                let got: Vec<(u64, u64, u32)> = {
                    let _off = ScopeOff::new();
                    t.memory_areas().iter().map(|m| (m.start_address(), m.size(), u32::from(m.typ()))).collect()
                };
                let want: Vec<(u64, u64, u32)> = {
                    let _off = ScopeOff::new();
                    op.bytes(0)
                        .chunks_exact(20)
                        .map(|c| {
                            (
                                u64::from_le_bytes(c[0..8].try_into().unwrap()),
                                u64::from_le_bytes(c[8..16].try_into().unwrap()),
                                u32::from_le_bytes(c[16..20].try_into().unwrap()),
                            )
                        })
                        .collect()
                };
                rb(&mut out, "memory_areas()", got, want);
                keep!(t);
            }
            Built::Vbe(v) => {
                let t = check_sized(*v, &sp, &mut out);
                idc(&mut out, mb::VBEInfoTag::ID.val(), &sp);
                rb(&mut out, "mode()", t.mode(), a(op, 0) as u16);
                rb(&mut out, "interface_segment()", t.interface_segment(), a(op, 1) as u16);
                rb(&mut out, "interface_offset()", t.interface_offset(), a(op, 2) as u16);
                rb(&mut out, "interface_length()", t.interface_length(), a(op, 3) as u16);
                if t.control_info() != vbe_args(op).0 {
                    out.findings.push(Finding { clause: "readback", detail: "control_info() differs from the argument".into() });
                }
                if t.mode_info() != vbe_args(op).1 {
                    out.findings.push(Finding { clause: "readback", detail: "mode_info() differs from the argument".into() });
                }
                keep!(t);
            }
            Built::Framebuffer(t) => {
                check_dst(&*t, &sp, &mut out);
                idc(&mut out, mb::FramebufferTag::ID.val(), &sp);
                rb(&mut out, "address()", t.address(), a(op, 0));
                rb(&mut out, "pitch()", t.pitch(), a(op, 1) as u32);
                rb(&mut out, "width()", t.width(), a(op, 2) as u32);
                rb(&mut out, "height()", t.height(), a(op, 3) as u32);
                rb(&mut out, "bpp()", t.bpp(), a(op, 4) as u8);
                let got: Option<(u8, Vec<u8>)> = {
                    let _off = ScopeOff::new();
                    match t.buffer_type() {
                        Ok(mb::FramebufferType::Indexed { palette }) => {
                            Some((0, palette.iter().flat_map(|c| [c.red, c.green, c.blue]).collect()))
                        }
                        Ok(mb::FramebufferType::RGB { red, green, blue }) => {
                            Some((1, vec![red.position, red.size, green.position, green.size, blue.position, blue.size]))
                        }
                        Ok(mb::FramebufferType::Text) => Some((2, vec![])),
                        Err(_) => None,
                    }
                };
                let want: Option<(u8, Vec<u8>)> = {
                    let _off = ScopeOff::new();
                    Some(match a(op, 5) % 3 {
                        0 => (0, op.bytes(0)[..op.bytes(0).len() / 3 * 3].to_vec()),
                        1 => (1, fixed::<6>(op.bytes(0)).to_vec()),
                        _ => (2, vec![]),
                    })
                };
                rb(&mut out, "buffer_type()", got, want);
                keep!(t);
            }
            Built::ElfSections(t) => {
                check_dst(&*t, &sp, &mut out);
                idc(&mut out, mb::ElfSectionsTag::ID.val(), &sp);
                rb(&mut out, "number_of_sections()", t.number_of_sections(), a(op, 0) as u32);
                rb(&mut out, "entry_size()", t.entry_size(), a(op, 1) as u32);
                rb(&mut out, "shndx()", t.shndx(), a(op, 2) as u32);
                // sections(): only for a well-formed table (Appendix A.3) — whole
                // entries of a known size, string-table index in range. Names are
                // not resolved (that dereferences an address stored in the data).
                let (n, es, shndx, raw) = (a(op, 0) as u32 as usize, a(op, 1) as u32 as usize, a(op, 2) as u32 as usize, op.bytes(0));
                if (es == 40 || es == 64) && n * es == raw.len() && shndx < n {
                    let got: Vec<(u32, u64, u64, u64)> = {
                        let _off = ScopeOff::new();
                        t.sections().map(|s| (s.section_type_raw(), s.start_address(), s.size(), s.addralign())).collect()
                    };
                    let all: Vec<(u32, u64, u64, u64)> = {
                        let _off = ScopeOff::new();
                        raw.chunks_exact(es)
                            .map(|e| {
                                let w32 = |o: usize| u32::from_le_bytes(e[o..o + 4].try_into().unwrap());
                                let w64 = |o: usize| u64::from_le_bytes(e[o..o + 8].try_into().unwrap());
                                if es == 40 {
                                    (w32(4), w32(12) as u64, w32(20) as u64, w32(32) as u64)
                                } else {
                                    (w32(4), w64(16), w64(32), w64(48))
                                }
                            })
                            .collect()
                    };
                    // what comes back must be the given entries, in order, without
                    // the unused ones (type 0); which *other* types an implementation
                    // chooses to skip is not prescribed, the architected 1..=11 must appear
                    let mut it = all.iter();
                    let in_order = got.iter().all(|g| it.any(|e| e == g));
                    let must: Vec<_> = all.iter().filter(|e| (1..=11).contains(&e.0)).collect();
                    let mut it2 = got.iter();
                    let complete = must.iter().all(|m| it2.any(|g| &g == m));
                    if !in_order || !complete || got.iter().any(|g| g.0 == 0) {
                        out.findings.push(Finding {
                            clause: "readback",
                            detail: format!("sections(): {} entries came back for {} given ({} with an architected type); not the given entries in order", got.len(), all.len(), must.len()),
                        });
                    }
                    let _off = ScopeOff::new();
                    out.observed.extend_from_slice(format!("sections={};", got.len()).as_bytes());
                }
                keep!(t);
            }
            Built::Apm(v) => {
                let t = check_sized(v, &sp, &mut out);
                idc(&mut out, mb::ApmTag::ID.val(), &sp);
                rb(&mut out, "version()", t.version(), a(op, 0) as u16);
                rb(&mut out, "cseg()", t.cseg(), a(op, 1) as u16);
                rb(&mut out, "offset()", t.offset(), a(op, 2) as u32);
                rb(&mut out, "cset_16()", t.cset_16(), a(op, 3) as u16);
                rb(&mut out, "dseg()", t.dseg(), a(op, 4) as u16);
                rb(&mut out, "flags()", t.flags(), a(op, 5) as u16);
                rb(&mut out, "cseg_len()", t.cseg_len(), a(op, 6) as u16);
                rb(&mut out, "cseg_16_len()", t.cseg_16_len(), a(op, 7) as u16);
                rb(&mut out, "dseg_len()", t.dseg_len(), a(op, 8) as u16);
                keep!(t);
            }
            Built::Efi32(v) => {
                let t = check_sized(v, &sp, &mut out);
                idc(&mut out, mb::EFISdt32Tag::ID.val(), &sp);
                rb(&mut out, "sdt_address()", t.sdt_address(), a(op, 0) as u32 as usize);
                keep!(t);
            }
            Built::Efi64(v) => {
                let t = check_sized(v, &sp, &mut out);
                idc(&mut out, mb::EFISdt64Tag::ID.val(), &sp);
                rb(&mut out, "sdt_address()", t.sdt_address(), a(op, 0) as usize);
                keep!(t);
            }
            Built::Smbios(t) => {
                check_dst(&*t, &sp, &mut out);
                idc(&mut out, mb::SmbiosTag::ID.val(), &sp);
                rb(&mut out, "major()", t.major(), a(op, 0) as u8);
                rb(&mut out, "minor()", t.minor(), a(op, 1) as u8);
                rb(&mut out, "tables()", t.tables().to_vec(), op.bytes(0).to_vec());
                keep!(t);
            }
            Built::RsdpV1(v) => {
                let t = check_sized(v, &sp, &mut out);
                idc(&mut out, mb::RsdpV1Tag::ID.val(), &sp);
                let oem: [u8; 6] = fixed(op.bytes(0));
                rb(&mut out, "signature()", t.signature().ok().map(|s| s.to_string()), Some("RSD PTR ".to_string()));
                rb(&mut out, "oem_id()", t.oem_id().ok().map(|s| s.as_bytes().to_vec()), std::str::from_utf8(&oem).ok().map(|s| s.as_bytes().to_vec()));
                rb(&mut out, "revision()", t.revision(), a(op, 1) as u8);
                rb(&mut out, "rsdt_address()", t.rsdt_address(), a(op, 2) as u32 as usize);
                // checksum_is_valid sums the 20 RSDP bytes: evaluate it against the spec image
                let want_valid = sp.image[8..28].iter().fold(0u8, |s, &b| s.wrapping_add(b)) == 0;
                rb(&mut out, "checksum_is_valid()", t.checksum_is_valid(), want_valid);
                keep!(t);
            }
            Built::RsdpV2(v) => {
                let t = check_sized(v, &sp, &mut out);
                idc(&mut out, mb::RsdpV2Tag::ID.val(), &sp);
                let oem: [u8; 6] = fixed(op.bytes(0));
                rb(&mut out, "signature()", t.signature().ok().map(|s| s.to_string()), Some("RSD PTR ".to_string()));
                rb(&mut out, "oem_id()", t.oem_id().ok().map(|s| s.as_bytes().to_vec()), std::str::from_utf8(&oem).ok().map(|s| s.as_bytes().to_vec()));
                rb(&mut out, "revision()", t.revision(), a(op, 1) as u8);
                rb(&mut out, "xsdt_address()", t.xsdt_address(), a(op, 4) as usize);
                rb(&mut out, "ext_checksum()", t.ext_checksum(), a(op, 5) as u8);
                if a(op, 3) as u32 == 36 {
                    // only with the architected length does the accessor stay inside the tag (Appendix A.3)
                    let want_valid = sp.image[8..44].iter().fold(0u8, |s, &b| s.wrapping_add(b)) == 0;
                    rb(&mut out, "checksum_is_valid()", t.checksum_is_valid(), want_valid);
                }
                keep!(t);
            }
            Built::Network(t) => {
                check_dst(&*t, &sp, &mut out);
                idc(&mut out, mb::NetworkTag::ID.val(), &sp);
                keep!(t);
            }
            Built::EfiMmap(t) => {
                check_dst(&*t, &sp, &mut out);
                idc(&mut out, mb::EFIMemoryMapTag::ID.val(), &sp);
                let (ds, dv, map): (u32, u32, &[u8]) = if c == Ctor::EfiMmapFromDescs {
                    (40, 1, &op.bytes(0)[..op.bytes(0).len() / 40 * 40])
                } else {
                    (a(op, 0) as u32, a(op, 1) as u32, op.bytes(0))
                };
                if dv == 1 && ds >= 40 && ds % 8 == 0 && map.len() % ds as usize == 0 {
                    let got: Vec<(u32, u64, u64, u64, u64)> = {
                        let _off = ScopeOff::new();
                        t.memory_areas().map(|d| (d.ty.0, d.phys_start, d.virt_start, d.page_count, d.att.bits())).collect()
                    };
                    let want: Vec<(u32, u64, u64, u64, u64)> = {
                        let _off = ScopeOff::new();
                        map.chunks_exact(ds as usize)
                            .map(|c| {
                                let w = |o: usize| u64::from_le_bytes(c[o..o + 8].try_into().unwrap());
                                (u32::from_le_bytes(c[0..4].try_into().unwrap()), w(8), w(16), w(24), w(32))
                            })
                            .collect()
                    };
                    rb(&mut out, "memory_areas()", got, want);
                }
                keep!(t);
            }
            Built::EfiBs(v) => {
                let t = check_sized(v, &sp, &mut out);
                idc(&mut out, mb::EFIBootServicesNotExitedTag::ID.val(), &sp);
                keep!(t);
            }
            Built::Efi32Ih(v) => {
                let t = check_sized(v, &sp, &mut out);
                idc(&mut out, mb::EFIImageHandle32Tag::ID.val(), &sp);
                rb(&mut out, "image_handle()", t.image_handle(), a(op, 0) as u32 as usize);
                keep!(t);
            }
            Built::Efi64Ih(v) => {
                let t = check_sized(v, &sp, &mut out);
                idc(&mut out, mb::EFIImageHandle64Tag::ID.val(), &sp);
                rb(&mut out, "image_handle()", t.image_handle(), a(op, 0) as usize);
                keep!(t);
            }
            Built::ImageLoadAddr(v) => {
                let t = check_sized(v, &sp, &mut out);
                idc(&mut out, mb::ImageLoadPhysAddrTag::ID.val(), &sp);
                rb(&mut out, "load_base_addr()", t.load_base_addr(), a(op, 0) as u32);
                keep!(t);
            }
            Built::End(v) => {
                let t = check_sized(v, &sp, &mut out);
                idc(&mut out, mb::EndTag::ID.val(), &sp);
                keep!(t);
            }
            Built::TagHdr(h) => {
                compare_image(&mut out.findings, &sp, &raw_bytes_of(&h), "value");
                rb(&mut out, "typ", u32::from(h.typ), a(op, 0) as u32);
                rb(&mut out, "size", h.size, a(op, 1) as u32);
            }
            Built::MemArea(m) => {
                compare_image(&mut out.findings, &sp, &raw_bytes_of(&m), "value");
                rb(&mut out, "start_address()", m.start_address(), a(op, 0));
                rb(&mut out, "size()", m.size(), a(op, 1));
                rb(&mut out, "typ()", u32::from(m.typ()), a(op, 2) as u32);
                if let Some(end) = a(op, 0).checked_add(a(op, 1)) {
                    rb(&mut out, "end_address()", m.end_address(), end);
                }
            }
            Built::Custom(t) => {
                check_dst(&*t, &sp, &mut out);
                keep!(t);
            }
            Built::HInfoReq(t) => {
                check_dst(&*t, &sp, &mut out);
                idc(&mut out, mh::InformationRequestHeaderTag::ID as u16 as u32, &sp);
                hdr_fields(&mut out, t.typ(), t.flags(), t.size(), &sp, op);
                let got: Vec<u32> = {
                    let _off = ScopeOff::new();
                    t.requests().iter().map(|r| u32::from(*r)).collect()
                };
                let want: Vec<u32> = {
                    let _off = ScopeOff::new();
                    op.bytes(0).chunks_exact(4).map(|c| u32::from_le_bytes(c.try_into().unwrap())).collect()
                };
                rb(&mut out, "requests()", got, want);
                keep!(t);
            }
            Built::HAddress(v) => {
                let t = check_sized(v, &sp, &mut out);
                idc(&mut out, mh::AddressHeaderTag::ID as u16 as u32, &sp);
                hdr_fields(&mut out, t.typ(), t.flags(), t.size(), &sp, op);
                rb(&mut out, "header_addr()", t.header_addr(), a(op, 1) as u32);
                rb(&mut out, "load_addr()", t.load_addr(), a(op, 2) as u32);
                rb(&mut out, "load_end_addr()", t.load_end_addr(), a(op, 3) as u32);
                rb(&mut out, "bss_end_addr()", t.bss_end_addr(), a(op, 4) as u32);
                keep!(t);
            }
            Built::HEntryAddress(v) => {
                let t = check_sized(v, &sp, &mut out);
                idc(&mut out, mh::EntryAddressHeaderTag::ID as u16 as u32, &sp);
                hdr_fields(&mut out, t.typ(), t.flags(), t.size(), &sp, op);
                rb(&mut out, "entry_addr()", t.entry_addr(), a(op, 1) as u32);
                keep!(t);
            }
            Built::HConsole(v) => {
                let t = check_sized(v, &sp, &mut out);
                idc(&mut out, mh::ConsoleHeaderTag::ID as u16 as u32, &sp);
                hdr_fields(&mut out, t.typ(), t.flags(), t.size(), &sp, op);
                rb(&mut out, "console_flags()", t.console_flags() as u32, (a(op, 1) % 2) as u32);
                keep!(t);
            }
            Built::HFramebuffer(v) => {
                let t = check_sized(v, &sp, &mut out);
                idc(&mut out, mh::FramebufferHeaderTag::ID as u16 as u32, &sp);
                hdr_fields(&mut out, t.typ(), t.flags(), t.size(), &sp, op);
                rb(&mut out, "width()", t.width(), a(op, 1) as u32);
                rb(&mut out, "height()", t.height(), a(op, 2) as u32);
                rb(&mut out, "depth()", t.depth(), a(op, 3) as u32);
                keep!(t);
            }
            Built::HModuleAlign(v) => {
                let t = check_sized(v, &sp, &mut out);
                idc(&mut out, mh::ModuleAlignHeaderTag::ID as u16 as u32, &sp);
                hdr_fields(&mut out, t.typ(), t.flags(), t.size(), &sp, op);
                keep!(t);
            }
            Built::HEfiBs(v) => {
                let t = check_sized(v, &sp, &mut out);
                idc(&mut out, mh::EfiBootServiceHeaderTag::ID as u16 as u32, &sp);
                hdr_fields(&mut out, t.typ(), t.flags(), t.size(), &sp, op);
                keep!(t);
            }
            Built::HEntryEfi32(v) => {
                let t = check_sized(v, &sp, &mut out);
                idc(&mut out, mh::EntryEfi32HeaderTag::ID as u16 as u32, &sp);
                hdr_fields(&mut out, t.typ(), t.flags(), t.size(), &sp, op);
                rb(&mut out, "entry_addr()", t.entry_addr(), a(op, 1) as u32);
                keep!(t);
            }
            Built::HEntryEfi64(v) => {
                let t = check_sized(v, &sp, &mut out);
                idc(&mut out, mh::EntryEfi64HeaderTag::ID as u16 as u32, &sp);
                hdr_fields(&mut out, t.typ(), t.flags(), t.size(), &sp, op);
                rb(&mut out, "entry_addr()", t.entry_addr(), a(op, 1) as u32);
                keep!(t);
            }
            Built::HRelocatable(v) => {
                let t = check_sized(v, &sp, &mut out);
                idc(&mut out, mh::RelocatableHeaderTag::ID as u16 as u32, &sp);
                hdr_fields(&mut out, t.typ(), t.flags(), t.size(), &sp, op);
                rb(&mut out, "min_addr()", t.min_addr(), a(op, 1) as u32);
                rb(&mut out, "max_addr()", t.max_addr(), a(op, 2) as u32);
                rb(&mut out, "align()", t.align(), a(op, 3) as u32);
                rb(&mut out, "preference()", t.preference() as u32, (a(op, 4) % 3) as u32);
                keep!(t);
            }
            Built::HEnd(v) => {
                let t = check_sized(v, &sp, &mut out);
                idc(&mut out, mh::EndHeaderTag::ID as u16 as u32, &sp);
                hdr_fields(&mut out, t.typ(), t.flags(), t.size(), &sp, op);
                keep!(t);
            }
            Built::HTagHdr(h) => {
                compare_image(&mut out.findings, &sp, &raw_bytes_of(&h), "value");
                rb(&mut out, "typ()", h.typ() as u16 as u32, (a(op, 0) % 11) as u32);
                rb(&mut out, "flags()", h.flags() as u16 as u64, a(op, 1) % 2);
                rb(&mut out, "size()", h.size(), a(op, 2) as u32);
            }
        }
        out
    }

    /// The tag's own bytes up to its declared size — the image the builder
    /// models are filled with (C06/C12 do not depend on the spec encoder).
    pub fn supplied_image(&self) -> Result<Vec<u8>, String> {
        fn cut(img: Vec<u8>) -> Result<Vec<u8>, String> {
            if img.len() < 8 {
                return Err("byte view shorter than a tag header".into());
            }
            let size = u32::from_le_bytes(img[4..8].try_into().unwrap()) as usize;
            if size < 8 || size > img.len() {
                return Err(format!("declared size {size} outside the tag's {}-byte view", img.len()));
            }
            Ok(img[..size].to_vec())
        }
        match self {
            Built::Cmdline(t) => image_of(&**t),
            Built::BootLoaderName(t) => image_of(&**t),
            Built::Module(t) => image_of(&**t),
            Built::BasicMeminfo(t) => image_of(t),
            Built::Bootdev(t) => image_of(t),
            Built::Mmap(t) => image_of(&**t),
            Built::Vbe(t) => image_of(&**t),
            Built::Framebuffer(t) => image_of(&**t),
            Built::ElfSections(t) => image_of(&**t),
            Built::Apm(t) => image_of(t),
            Built::Efi32(t) => image_of(t),
            Built::Efi64(t) => image_of(t),
            Built::Smbios(t) => image_of(&**t),
            Built::RsdpV1(t) => image_of(t),
            Built::RsdpV2(t) => image_of(t),
            Built::Network(t) => image_of(&**t),
            Built::EfiMmap(t) => image_of(&**t),
            Built::EfiBs(t) => image_of(t),
            Built::Efi32Ih(t) => image_of(t),
            Built::Efi64Ih(t) => image_of(t),
            Built::ImageLoadAddr(t) => image_of(t),
            Built::End(t) => image_of(t),
            Built::Custom(t) => image_of(&**t),
            Built::HInfoReq(t) => image_of(&**t),
            Built::HAddress(t) => image_of(t),
            Built::HEntryAddress(t) => image_of(t),
            Built::HConsole(t) => image_of(t),
            Built::HFramebuffer(t) => image_of(t),
            Built::HModuleAlign(t) => image_of(t),
            Built::HEfiBs(t) => image_of(t),
            Built::HEntryEfi32(t) => image_of(t),
            Built::HEntryEfi64(t) => image_of(t),
            Built::HRelocatable(t) => image_of(t),
            Built::HEnd(t) => image_of(t),
            Built::TagHdr(_) | Built::MemArea(_) | Built::HTagHdr(_) => Err("not a tag".into()),
        }
        .and_then(cut)
    }

    /// Hands the tag to its MBI builder slot (real setter).
    pub fn supply_mbi(self, b: mb::Builder) -> mb::Builder {
        match self {
            Built::Cmdline(t) => b.cmdline(t),
            Built::BootLoaderName(t) => b.bootloader(t),
            Built::Module(t) => b.add_module(t),
            Built::BasicMeminfo(t) => b.meminfo(t),
            Built::Bootdev(t) => b.bootdev(t),
            Built::Mmap(t) => b.mmap(t),
            Built::Vbe(t) => {
                let v = *t;
                b.vbe(v)
            }
            Built::Framebuffer(t) => b.framebuffer(t),
            Built::ElfSections(t) => b.elf_sections(t),
            Built::Apm(t) => b.apm(t),
            Built::Efi32(t) => b.efi32(t),
            Built::Efi64(t) => b.efi64(t),
            Built::Smbios(t) => b.add_smbios(t),
            Built::RsdpV1(t) => b.rsdpv1(t),
            Built::RsdpV2(t) => b.rsdpv2(t),
            Built::Network(t) => b.network(t),
            Built::EfiMmap(t) => b.efi_mmap(t),
            Built::EfiBs(t) => b.efi_bs(t),
            Built::Efi32Ih(t) => b.efi32_ih(t),
            Built::Efi64Ih(t) => b.efi64_ih(t),
            Built::ImageLoadAddr(t) => b.image_load_addr(t),
            Built::Custom(t) => b.add_custom_tag(t),
            _ => unreachable!("not an MBI builder slot"),
        }
    }

    pub fn supply_hdr(self, b: mh::Builder) -> mh::Builder {
        match self {
            Built::HInfoReq(t) => b.information_request_tag(t),
            Built::HAddress(t) => b.address_tag(t),
            Built::HEntryAddress(t) => b.entry_tag(t),
            Built::HConsole(t) => b.console_tag(t),
            Built::HFramebuffer(t) => b.framebuffer_tag(t),
            Built::HModuleAlign(t) => b.module_align_tag(t),
            Built::HEfiBs(t) => b.efi_bs_tag(t),
            Built::HEntryEfi32(t) => b.efi_32_tag(t),
            Built::HEntryEfi64(t) => b.efi_64_tag(t),
            Built::HRelocatable(t) => b.relocatable_tag(t),
            _ => unreachable!("not a header builder slot"),
        }
    }
}

// ---------------------------------------------------------------------------
// Argument generation
// ---------------------------------------------------------------------------

/// Standard text and graphics geometries (columns×rows / width×height).
const VIDEO_MODES: [(u64, u64); 10] =
    [(80, 25), (80, 50), (132, 43), (320, 200), (640, 480), (800, 600), (1024, 768), (1280, 1024), (1920, 1080), (3840, 2160)];

/// Per-run (swarm) knobs for argument generation.
#[derive(Clone, Copy, Debug)]
pub struct GenKnobs {
    pub max_len: usize,
    /// out of 64: chance that an op violates a documented precondition
    pub precondition_rate: u64,
}

fn gen_text(rng: &mut Rng, k: &GenKnobs) -> Vec<u8> {
    // characters whose encodings and scalar values exercise different paths:
    // 2-, 3- and 4-byte UTF-8, scalar values that are multiples of 256
    // (U+0100, U+0400, U+3000, U+4E00, U+1F600), combining marks, BOM
    const WIDE: [&str; 14] =
        ["é", "ü", "ß", "Ā", "Ѐ", "✓", "ダ", "一", "\u{3000}", "😀", "🚀", "\u{301}", "\u{feff}", "\u{7f}"];
    // now and then a string a boot loader really passes (a maintainer's
    // special cases are about these: leading dashes, spaces, '=' and ',', paths)
    const REAL: [&str; 16] = [
        "quiet", "root=/dev/sda1 ro", "GRUB 2.06", "--", "-s", "a=b", " ", "\t", "initrd.img", "/boot/kernel",
        "console=ttyS0,115200n8", "  leading", "trailing  ", "multiboot2", "a b  c", "\"quoted arg\"",
    ];
    if rng.chance(1, 12) {
        let mut s = rng.pick(&REAL).as_bytes().to_vec();
        if rng.chance(1, 4) {
            s.push(0);
        }
        return s;
    }
    let len = gen_len(rng, k.max_len);
    let mut s = Vec::with_capacity(len + 8);
    let style = rng.below(8);
    while s.len() < len {
        match style {
            0 => s.push(b'a' + (s.len() % 26) as u8),
            1 | 2 if rng.chance(1, 4) => s.extend_from_slice(rng.pick(&WIDE).as_bytes()),
            3 if rng.chance(1, 12) => s.push(0), // interior NUL: still a valid &str
            _ => s.push(rng.range(0x20, 0x7e) as u8),
        }
    }
    // what the string ends with matters to the terminator rule
    match rng.below(8) {
        0 | 1 => s.push(0), // caller-supplied terminator: must not be doubled
        2 => s.extend_from_slice(rng.pick(&WIDE).as_bytes()),
        3 if !s.is_empty() => {
            // NUL somewhere before the end, text after it
            let at = rng.below(s.len() as u64) as usize;
            if s[at] < 0x80 {
                s[at] = 0;
            }
        }
        _ => {}
    }
    s
}

/// Length drawn so that every residue mod 8 near the small end is common and
/// long contents still occur.
pub fn gen_len(rng: &mut Rng, max_len: usize) -> usize {
    match rng.below(10) {
        0 => 0,
        1..=5 => rng.below(18) as usize,
        6..=8 => rng.below(70) as usize,
        _ => {
            // size thresholds (one byte either side of 2^8, 2^12, 2^16) are
            // where truncating casts and chunked copies go wrong
            let thresholds: [usize; 3] = [256, 4096, 65536];
            let reachable: Vec<usize> = thresholds.iter().copied().filter(|t| t + 1 <= max_len).collect();
            if !reachable.is_empty() && rng.chance(1, 2) {
                let t = *rng.pick(&reachable);
                t - 1 + rng.below(3) as usize
            } else {
                rng.below(max_len as u64 + 1) as usize
            }
        }
    }
}

/// Element count for a list of `unit`-byte elements: like `gen_len`, plus the
/// counts at which the list's *byte* length crosses 2^8, 2^12 and 2^16.
pub fn gen_count(rng: &mut Rng, max_count: usize, unit: usize) -> usize {
    let crossings: Vec<usize> =
        [256usize, 4096, 65536].iter().map(|t| (t + unit - 1) / unit).filter(|c| c + 1 <= max_count).collect();
    if !crossings.is_empty() && rng.chance(1, 12) {
        let c = *rng.pick(&crossings);
        return c - 1 + rng.below(3) as usize;
    }
    gen_len(rng, max_count)
}

pub fn gen_args(c: Ctor, rng: &mut Rng, k: &GenKnobs) -> (Vec<u64>, Vec<Vec<u8>>) {
    let mut m = 0u64;
    // one call in sixteen draws (most of) its scalars from the domain
    // dictionary, so that *combinations* of meaningful values occur
    // (80 × 25, entry size 40 with index 0xFFFF, equal bounds, …)
    let dict_mode = rng.chance(1, 16);
    let mut sc = |rng: &mut Rng, bits: u32| {
        m += 1;
        if dict_mode && rng.chance(3, 4) {
            rng.dict(bits)
        } else {
            rng.scalar(bits, m)
        }
    };
    let violate = rng.below(64) < k.precondition_rate;
    match c {
        Ctor::Cmdline | Ctor::BootLoaderName => (vec![], vec![gen_text(rng, k)]),
        Ctor::Module => {
            let (mut s, mut e) = (sc(rng, 32), sc(rng, 32));
            if violate {
                if s < e {
                    std::mem::swap(&mut s, &mut e);
                }
            } else {
                if s > e {
                    std::mem::swap(&mut s, &mut e);
                }
                if s == e {
                    if e == u32::MAX as u64 {
                        s -= 1;
                    } else {
                        e += 1;
                    }
                }
            }
            (vec![s, e], vec![gen_text(rng, k)])
        }
        Ctor::BasicMeminfo => (vec![sc(rng, 32), sc(rng, 32)], vec![]),
        Ctor::Bootdev => (vec![sc(rng, 32), sc(rng, 32), sc(rng, 32)], vec![]),
        Ctor::Mmap => {
            let n = gen_count(rng, (k.max_len / 24).min(3000), 24);
            let mut b = Vec::with_capacity(n * 20);
            // real memory maps are sorted and mostly contiguous, with runs of
            // equal type: one map in four is generated that way
            let realistic = rng.chance(1, 4);
            let mut next_base = if rng.chance(1, 2) { 0 } else { sc(rng, 32) };
            let mut run_type = rng.range(1, 5);
            for _ in 0..n {
                if realistic {
                    let len = match rng.below(4) {
                        0 => 0x1000,
                        1 => rng.range(1, 64) * 0x1000,
                        2 => rng.range(1, 0x9FC00),
                        _ => 0,
                    };
                    if rng.chance(1, 3) {
                        run_type = rng.range(1, 5);
                    }
                    if rng.chance(1, 8) {
                        next_base += rng.range(1, 0x10000); // a hole
                    }
                    b.extend_from_slice(&next_base.to_le_bytes());
                    b.extend_from_slice(&len.to_le_bytes());
                    b.extend_from_slice(&(run_type as u32).to_le_bytes());
                    next_base = next_base.wrapping_add(len);
                    continue;
                }
                b.extend_from_slice(&sc(rng, 64).to_le_bytes());
                b.extend_from_slice(&sc(rng, 64).to_le_bytes());
                let t = if rng.chance(1, 2) { rng.range(0, 6) } else { sc(rng, 32) };
                b.extend_from_slice(&(t as u32).to_le_bytes());
            }
            (vec![rng.below(2)], vec![b])
        }
        Ctor::Vbe => {
            let mut ctrl = rng.bytes(512);
            let mut mode = rng.bytes(256);
            if rng.chance(1, 2) {
                for (i, x) in ctrl.iter_mut().enumerate() {
                    *x = (i as u8).wrapping_mul(3).wrapping_add(1);
                }
                for (i, x) in mode.iter_mut().enumerate() {
                    *x = (i as u8).wrapping_mul(5).wrapping_add(2);
                }
            }
            (vec![sc(rng, 16), sc(rng, 16), sc(rng, 16), sc(rng, 16), rng.below(2)], vec![ctrl, mode])
        }
        Ctor::Framebuffer => {
            let kind = rng.below(3);
            let b = match kind {
                0 => {
                    let n = gen_count(rng, (k.max_len / 3).min(22000), 3);
                    rng.bytes(3 * n)
                }
                1 => rng.bytes(6),
                _ => vec![],
            };
            if rng.chance(1, 4) {
                // a standard video mode: geometry, depth and pitch that belong together
                let (w, h) = *rng.pick(&VIDEO_MODES);
                let bpp = *rng.pick(&[4u64, 8, 15, 16, 24, 32]);
                let addr = *rng.pick(&[0xB8000u64, 0xA0000, 0xE000_0000, 0xFD00_0000, 0x1_0000_0000]);
                return (vec![addr, w * ((bpp + 7) / 8), w, h, bpp, kind], vec![b]);
            }
            (vec![sc(rng, 64), sc(rng, 32), sc(rng, 32), sc(rng, 32), sc(rng, 8), kind], vec![b])
        }
        Ctor::ElfSections => {
            if rng.chance(1, 3) {
                // shaped like a real section-header table: 32- or 64-bit entry
                // size, a whole number of entries, a string-table index that is
                // in range or one of ELF's reserved indices (SHN_XINDEX, …)
                let entsize = if rng.chance(1, 2) { 40 } else { 64 };
                // mostly a handful of sections; sometimes more than 2^16 bytes of them
                let n = if k.max_len >= 60000 && rng.chance(1, 3) { rng.range(1020, 1700) } else { rng.below(7) };
                let shndx = match rng.below(6) {
                    0 => 0xFFFF,
                    1 => 0xFF00,
                    2 => 0,
                    3 if n > 0 => n - 1,
                    _ => rng.below(n + 1),
                };
                let mut table = rng.bytes((n * entsize) as usize);
                // section types mostly architected ones (offset 4 of each entry)
                for e in table.chunks_exact_mut(entsize as usize) {
                    if rng.chance(3, 4) {
                        e[4..8].copy_from_slice(&(rng.below(13) as u32).to_le_bytes());
                    }
                }
                return (vec![n, entsize, shndx], vec![table]);
            }
            let l = gen_len(rng, k.max_len);
            (vec![sc(rng, 32), sc(rng, 32), sc(rng, 32)], vec![rng.bytes(l)])
        }
        Ctor::Apm => (
            vec![
                sc(rng, 16),
                sc(rng, 16),
                sc(rng, 32),
                sc(rng, 16),
                sc(rng, 16),
                sc(rng, 16),
                sc(rng, 16),
                sc(rng, 16),
                sc(rng, 16),
            ],
            vec![],
        ),
        Ctor::Efi32 | Ctor::Efi32Ih | Ctor::ImageLoadAddr => (vec![sc(rng, 32)], vec![]),
        Ctor::Efi64 | Ctor::Efi64Ih => (vec![sc(rng, 64)], vec![]),
        Ctor::Smbios => {
            let l = gen_len(rng, k.max_len);
            let mut tables = rng.bytes(l);
            if rng.chance(1, 8) {
                // a well-formed SMBIOS entry point (anchor, length, version,
                // checksum 0) in front: what real firmware hands over
                let mut ep: Vec<u8> = if rng.chance(1, 2) {
                    let mut e = b"_SM_".to_vec();
                    e.extend_from_slice(&[0, 0x1f, rng.below(4) as u8, rng.below(9) as u8]);
                    e.extend_from_slice(&rng.bytes(8));
                    e.extend_from_slice(b"_DMI_");
                    e.extend_from_slice(&rng.bytes(10));
                    e
                } else {
                    let mut e = b"_SM3_".to_vec();
                    e.extend_from_slice(&[0, 0x18, 3, rng.below(8) as u8]);
                    e.extend_from_slice(&rng.bytes(15));
                    e
                };
                let sum = ep.iter().fold(0u8, |a, b| a.wrapping_add(*b));
                ep[4] = 0u8.wrapping_sub(sum); // checksum byte follows the anchor
                if ep.starts_with(b"_SM3_") {
                    ep[4] = b'_';
                    let sum = ep.iter().fold(0u8, |a, b| a.wrapping_add(*b));
                    ep[5] = ep[5].wrapping_sub(sum);
                }
                ep.extend_from_slice(&tables);
                tables = ep;
            }
            (vec![sc(rng, 8), sc(rng, 8)], vec![tables])
        }
        Ctor::RsdpV1 => {
            let oem = match rng.below(6) {
                0 => b"BOCHS ".to_vec(),
                1 => b"      ".to_vec(),
                2 => b" A B  ".to_vec(),
                3 => rng.bytes(6),
                _ => b"OEMIDX".to_vec(),
            };
            (vec![sc(rng, 8), sc(rng, 8), sc(rng, 32)], vec![oem])
        }
        Ctor::RsdpV2 => {
            let oem = match rng.below(6) {
                0 => b"BOCHS ".to_vec(),
                1 => b"      ".to_vec(),
                2 => b"AB\0\0\0\0".to_vec(),
                3 => rng.bytes(6),
                _ => b"OEMIDY".to_vec(),
            };
            let length = if rng.chance(1, 2) { 36 } else { sc(rng, 32) };
            (vec![sc(rng, 8), sc(rng, 8), sc(rng, 32), length, sc(rng, 64), sc(rng, 8)], vec![oem])
        }
        Ctor::Network => {
            let l = gen_len(rng, k.max_len);
            (vec![], vec![rng.bytes(l)])
        }
        Ctor::EfiMmapFromMap => {
            let ds = if violate {
                0
            } else {
                match rng.below(4) {
                    0 => 40,
                    1 => 48,
                    2 => rng.range(1, 64),
                    _ => sc(rng, 32).max(1),
                }
            };
            let dv = if rng.chance(2, 3) { 1 } else { sc(rng, 32) };
            let l = if (40..=64).contains(&ds) && rng.chance(3, 4) {
                ds as usize * (gen_len(rng, k.max_len / 48).min(1700))
            } else {
                gen_len(rng, k.max_len)
            };
            (vec![ds, dv], vec![rng.bytes(l)])
        }
        Ctor::EfiMmapFromDescs => {
            let n = gen_count(rng, (k.max_len / 40).min(1700), 40);
            (vec![], vec![rng.bytes(n * 40)])
        }
        Ctor::EfiBsNew | Ctor::EfiBsDefault | Ctor::EndDefault | Ctor::HEndNew | Ctor::HEndDefault => (vec![], vec![]),
        Ctor::TagHdrNew => {
            let typ = if rng.chance(1, 2) { rng.below(24) } else { sc(rng, 32) };
            (vec![typ, sc(rng, 32), rng.below(2)], vec![])
        }
        Ctor::MemAreaNew => {
            let typ = if rng.chance(1, 2) { rng.below(8) } else { sc(rng, 32) };
            (vec![sc(rng, 64), sc(rng, 64), typ, rng.below(2)], vec![])
        }
        Ctor::Custom => {
            let typ = if violate {
                rng.below(22)
            } else if rng.chance(1, 2) {
                rng.range(22, 26) // few numbers: repeats of the same custom type are common
            } else {
                sc(rng, 32).max(22)
            };
            let l = gen_len(rng, k.max_len);
            (vec![typ], vec![rng.bytes(l)])
        }
        Ctor::HInfoReq => {
            let n = gen_count(rng, (k.max_len / 4).min(17000), 4);
            let mut b = Vec::with_capacity(4 * n);
            for _ in 0..n {
                let v = if rng.chance(2, 3) { rng.range(0, 22) } else { sc(rng, 32) };
                b.extend_from_slice(&(v as u32).to_le_bytes());
            }
            (vec![rng.below(2), rng.below(2)], vec![b])
        }
        Ctor::HAddress => (vec![rng.below(2), sc(rng, 32), sc(rng, 32), sc(rng, 32), sc(rng, 32)], vec![]),
        Ctor::HEntryAddress | Ctor::HEntryEfi32 | Ctor::HEntryEfi64 => (vec![rng.below(2), sc(rng, 32)], vec![]),
        Ctor::HConsole => (vec![rng.below(2), rng.below(2)], vec![]),
        Ctor::HFramebuffer => {
            if rng.chance(1, 4) {
                let (w, h) = *rng.pick(&VIDEO_MODES);
                let depth = *rng.pick(&[0u64, 4, 8, 15, 16, 24, 32]);
                return (vec![rng.below(2), w, h, depth], vec![]);
            }
            (vec![rng.below(2), sc(rng, 32), sc(rng, 32), sc(rng, 32)], vec![])
        }
        Ctor::HModuleAlign | Ctor::HEfiBs => (vec![rng.below(2)], vec![]),
        Ctor::HRelocatable => (vec![rng.below(2), sc(rng, 32), sc(rng, 32), sc(rng, 32), rng.below(3)], vec![]),
        Ctor::HTagHdrNew => (vec![rng.below(11), rng.below(2), sc(rng, 32)], vec![]),
    }
}
