//! One *evaluation* = one trace executed under the baseline allocator and
//! under its drawn allocator script, every oracle applied to both, plus the
//! environment-independence comparison between the two transcripts.
//! Fault-injecting evaluations (`fail_at != 0`) are single executions and are
//! kept separate from the fault-free ones, so the relaxations they need
//! (panic/abort are legitimate) never hide an ordinary bug.

use crate::interp::{self, Probes, Prop};
use crate::ops::Trace;
use crate::proc::{self, Status};
use crate::rng::mix;
use crate::simalloc::{self, Config, Counters};

#[derive(Clone, Debug, Default)]
pub struct EvalResult {
    /// (signature, detail)
    pub viols: Vec<(String, String)>,
    pub digest: u64,
    pub shape: u64,
    pub nontrivial: bool,
    pub herr: Option<String>,
    pub probes: Probes,
    pub executions: u32,
    pub counters: CounterSum,
    pub oom_fired: bool,
    /// in-scope allocation requests made by the last execution (the space of
    /// failure points for the allocation-failure enumeration)
    pub alloc_requests: u32,
}

#[derive(Clone, Copy, Debug, Default)]
pub struct CounterSum {
    pub allocs: u64,
    pub frees: u64,
    pub reallocs_in_place: u64,
    pub reallocs_moved: u64,
    pub failed_allocs: u64,
    pub minaligned: u64,
    pub at_8_mod_16: u64,
    pub recycled: u64,
    pub dirty: u64,
    pub guarded: u64,
    pub straddled: u64,
    pub bytes: u64,
}

impl CounterSum {
    pub fn add(&mut self, c: &Counters) {
        self.allocs += c.allocs;
        self.frees += c.frees;
        self.reallocs_in_place += c.reallocs_in_place;
        self.reallocs_moved += c.reallocs_moved;
        self.failed_allocs += c.failed_allocs;
        self.minaligned += c.minaligned;
        self.at_8_mod_16 += c.at_8_mod_16;
        self.recycled += c.recycled;
        self.dirty += c.dirty;
        self.guarded += c.guarded;
        self.straddled += c.straddled;
        self.bytes += c.bytes;
    }
    pub fn merge(&mut self, o: &CounterSum) {
        self.allocs += o.allocs;
        self.frees += o.frees;
        self.reallocs_in_place += o.reallocs_in_place;
        self.reallocs_moved += o.reallocs_moved;
        self.failed_allocs += o.failed_allocs;
        self.minaligned += o.minaligned;
        self.at_8_mod_16 += o.at_8_mod_16;
        self.recycled += o.recycled;
        self.dirty += o.dirty;
        self.guarded += o.guarded;
        self.straddled += o.straddled;
        self.bytes += o.bytes;
    }
    pub fn fields(&self) -> [(&'static str, u64); 12] {
        [
            ("allocs", self.allocs),
            ("frees", self.frees),
            ("reallocs_in_place", self.reallocs_in_place),
            ("reallocs_moved", self.reallocs_moved),
            ("failed_allocs", self.failed_allocs),
            ("minaligned", self.minaligned),
            ("at_8_mod_16", self.at_8_mod_16),
            ("recycled", self.recycled),
            ("dirty", self.dirty),
            ("guarded", self.guarded),
            ("straddled", self.straddled),
            ("bytes", self.bytes),
        ]
    }
    pub fn set(&mut self, name: &str, v: u64) {
        match name {
            "allocs" => self.allocs = v,
            "frees" => self.frees = v,
            "reallocs_in_place" => self.reallocs_in_place = v,
            "reallocs_moved" => self.reallocs_moved = v,
            "failed_allocs" => self.failed_allocs = v,
            "minaligned" => self.minaligned = v,
            "at_8_mod_16" => self.at_8_mod_16 = v,
            "recycled" => self.recycled = v,
            "dirty" => self.dirty = v,
            "guarded" => self.guarded = v,
            "straddled" => self.straddled = v,
            "bytes" => self.bytes = v,
            _ => {}
        }
    }
}

/// In-process evaluation (the caller is a process that may die).
pub fn evaluate(prop: Prop, trace: &Trace) -> EvalResult {
    let mut res = EvalResult::default();
    let faulty = trace.cfg.fail_at != 0;
    let mut outs = Vec::new();
    if !faulty && trace.cfg != Config::BASELINE {
        let mut t = trace.clone();
        t.cfg = Config::BASELINE;
        outs.push((Config::BASELINE, interp::execute(prop, &t)));
    }
    outs.push((trace.cfg, interp::execute(prop, trace)));
    let mut d = 0u64;
    for (cfg, o) in &outs {
        res.executions += 1;
        for v in &o.violations {
            if !res.viols.iter().any(|(s, _)| s == &v.sig) {
                res.viols.push((v.sig.clone(), format!("[allocator {}] op {}: {}", cfg.describe(), v.op, v.detail)));
            }
        }
        if let Some(h) = &o.harness_error {
            res.herr = Some(h.clone());
        }
        res.probes.merge(&o.probes);
        res.counters.add(&o.counters);
        res.oom_fired |= o.oom_fired;
        res.alloc_requests = o.alloc_requests;
        if o.counters.allocs > 0 && o.model_comparisons > 0 {
            res.nontrivial = true;
        }
        d = mix(d, o.digest);
        res.shape = mix(res.shape, o.shape);
    }
    if outs.len() == 2 {
        let (a, b) = (&outs[0].1.transcript, &outs[1].1.transcript);
        let n = a.len().min(b.len());
        let diff = (0..n).find(|&i| a[i] != b[i]).or(if a.len() != b.len() { Some(n) } else { None });
        if let Some(i) = diff {
            let kind = trace.ops.get(i).map(|o| o.kind.name()).unwrap_or("end");
            let sig = format!("{}/env-dependence/{}", prop.id(), kind);
            res.viols.push((
                sig,
                format!(
                    "op {i}: observable result differs between the baseline allocator and {} — the library's result depends on what the allocator handed out",
                    trace.cfg.describe()
                ),
            ));
        }
    }
    res.digest = d;
    res
}

// ---------------------------------------------------------------------------
// Isolated evaluation (forked), with a line protocol
// ---------------------------------------------------------------------------

fn esc(s: &str) -> String {
    s.replace('\\', "\\\\").replace('\t', "\\t").replace('\n', "\\n")
}

pub fn unesc(s: &str) -> String {
    let mut out = String::new();
    let mut it = s.chars();
    while let Some(c) = it.next() {
        if c == '\\' {
            match it.next() {
                Some('t') => out.push('\t'),
                Some('n') => out.push('\n'),
                Some('\\') => out.push('\\'),
                Some(o) => out.push(o),
                None => {}
            }
        } else {
            out.push(c);
        }
    }
    out
}

pub fn encode_result(r: &EvalResult, with_probes: bool) -> String {
    let mut s = String::new();
    s.push_str(&format!(
        "R\t{:016x}\t{:016x}\t{}\t{}\t{}\t{}\n",
        r.digest, r.shape, r.nontrivial as u8, r.executions, r.oom_fired as u8, r.alloc_requests
    ));
    for (sig, detail) in &r.viols {
        s.push_str(&format!("V\t{}\t{}\n", esc(sig), esc(detail)));
    }
    if let Some(h) = &r.herr {
        s.push_str(&format!("H\t{}\n", esc(h)));
    }
    if with_probes {
        for (k, v) in &r.probes.0 {
            s.push_str(&format!("P\t{}\t{}\n", esc(k), v));
        }
        for (k, v) in r.counters.fields() {
            s.push_str(&format!("C\t{k}\t{v}\n"));
        }
    }
    s.push_str("E\n");
    s
}

pub fn decode_result(text: &str) -> (EvalResult, bool) {
    let mut r = EvalResult::default();
    let mut complete = false;
    for line in text.lines() {
        let f: Vec<&str> = line.split('\t').collect();
        match f[0] {
            "R" if f.len() >= 6 => {
                r.digest = u64::from_str_radix(f[1], 16).unwrap_or(0);
                r.shape = u64::from_str_radix(f[2], 16).unwrap_or(0);
                r.nontrivial = f[3] == "1";
                r.executions = f[4].parse().unwrap_or(0);
                r.oom_fired = f[5] == "1";
                r.alloc_requests = f.get(6).and_then(|x| x.parse().ok()).unwrap_or(0);
            }
            "V" if f.len() >= 3 => r.viols.push((unesc(f[1]), unesc(f[2]))),
            "H" if f.len() >= 2 => r.herr = Some(unesc(f[1])),
            "P" if f.len() >= 3 => {
                r.probes.add(&unesc(f[1]), f[2].parse().unwrap_or(0));
            }
            "C" if f.len() >= 3 => r.counters.set(f[1], f[2].parse().unwrap_or(0)),
            "E" => complete = true,
            _ => {}
        }
    }
    (r, complete)
}

#[derive(Clone, Debug)]
pub struct Isolated {
    pub res: EvalResult,
    /// `None` = the child finished; `Some(sig)` = it died with this signal
    pub died: Option<i32>,
    /// the allocator reported an injected failure before the death
    pub oom_marker: bool,
}

/// Evaluates a trace in a forked child. A death is turned into a violation
/// signature unless it is the documented `handle_alloc_error` abort that
/// follows an injected allocation failure.
pub fn evaluate_isolated(prop: Prop, trace: &Trace) -> Isolated {
    let t = trace.clone();
    let out = proc::fork_run(move |fd| {
        simalloc::set_oom_fd(fd);
        let r = evaluate(prop, &t);
        proc::write_all(fd, encode_result(&r, true).as_bytes());
    });
    let text = String::from_utf8_lossy(&out.out).to_string();
    let oom_marker = text.lines().any(|l| l.starts_with("F oom-injected"));
    let (mut res, complete) = decode_result(&text);
    let died = match out.status {
        Status::Exited(0) if complete => None,
        Status::Exited(c) if c == simalloc::EXIT_RETRY_STORM => {
            res.viols.push((
                format!("{}/hang/allocation-retry-loop", prop.id()),
                format!(
                    "[allocator {}] after an injected allocation failure the library requested memory more than 200000 times without returning: an unbounded retry loop (it never terminates on an exhausted heap)",
                    trace.cfg.describe()
                ),
            ));
            res.executions = res.executions.max(1);
            None
        }
        Status::Exited(c) if c == simalloc::EXIT_HARNESS_LIMIT => {
            let req = text.lines().find_map(|l| l.strip_prefix("F harness-limit request=")).unwrap_or("?");
            res.herr = Some(format!("the run outgrew the simulated heap (arena or block table exhausted; last request {req} bytes)"));
            None
        }
        Status::Exited(c) => {
            res.herr = Some(format!("child exited with code {c} without completing"));
            None
        }
        Status::Signaled(s) => Some(s),
    };
    if out.hung {
        res.viols.push((
            format!("{}/hang/no-progress", prop.id()),
            format!(
                "[allocator {}] the run produced no result for {} s and was killed: an operation does not terminate",
                trace.cfg.describe(),
                proc::SILENCE_LIMIT_MS / 1000
            ),
        ));
        res.executions = res.executions.max(1);
        return Isolated { res, died, oom_marker };
    }
    if let Some(sig) = died {
        // The one legitimate death: std's handle_alloc_error after an injected
        // failure (Vec growth, Box::new). It announces itself on stderr.
        let alloc_error_msg = text.contains("memory allocation of ") && text.contains(" bytes failed");
        let legit_abort = sig == 6 && oom_marker && alloc_error_msg && trace.cfg.fail_at != 0;
        if legit_abort {
            res.probes.hit("oom_landed_in_vec_or_box_abort");
            res.executions = res.executions.max(1);
            res.oom_fired = true;
        } else {
            res.viols.push((
                format!("{}/crash/{}", prop.id(), proc::signal_name(sig)),
                format!("[allocator {}] the process died with {} during this run", trace.cfg.describe(), proc::signal_name(sig)),
            ));
            res.executions = res.executions.max(1);
        }
    }
    Isolated { res, died, oom_marker }
}
