//! Workload generation: seeded traces (swarm-varied per run) and the fixed
//! directed corpus that runs first in every batch.
//!
//! Everything is a pure function of `(property, seed)`; the workload stream
//! and the allocator stream are forked from the run seed by label.

use crate::ctor::{self, Ctor, GenKnobs};
use crate::interp::{DstKind, Prop};
use crate::ops::{Op, OpKind, Trace};
use crate::rng::{Rng, STREAM_ALLOC, STREAM_WORKLOAD};
use crate::simalloc::{Config, Fill, Placement};

pub fn draw_cfg(seed: u64) -> Config {
    let mut r = Rng::fork(seed, STREAM_ALLOC);
    Config {
        placement: match r.below(13) {
            0 => Placement::Natural16,
            1..=3 => Placement::MinAlign,
            4..=5 => Placement::ReuseLifo,
            6..=7 => Placement::RandomGap,
            8..=9 => Placement::PageEnd,
            10 => Placement::Packed,
            _ => Placement::Straddle4G,
        },
        fill: match r.below(8) {
            0 => Fill::Zero,
            1..=2 => Fill::PatternAA,
            3..=5 => Fill::Random,
            _ => Fill::Stale,
        },
        realloc_move: r.chance(1, 2),
        poison_free: r.chance(3, 4),
        fail_at: 0, fail_persist: false,
        alloc_seed: r.next_u64() >> 1,
    }
}

fn max_len(r: &mut Rng) -> usize {
    match r.below(40) {
        0..=14 => 24,
        15..=26 => 72,
        27..=34 => 400,
        35..=38 => 4100,
        _ => 66000, // rare: crosses every 16-bit boundary
    }
}

fn pattern(n: usize, salt: u8) -> Vec<u8> {
    (0..n).map(|i| (i as u8).wrapping_mul(7).wrapping_add(salt) | 1).collect()
}

/// Splits `content` into `k` slices at seeded cut points (coinciding cuts give
/// empty slices; `k == 0` only for empty content).
fn partition(r: &mut Rng, content: &[u8], k: usize) -> Vec<Vec<u8>> {
    if k == 0 {
        return if content.is_empty() { vec![] } else { vec![content.to_vec()] };
    }
    let mut cuts: Vec<usize> = (0..k - 1).map(|_| r.below(content.len() as u64 + 1) as usize).collect();
    cuts.sort_unstable();
    let mut out = Vec::with_capacity(k);
    let mut prev = 0;
    for c in cuts {
        out.push(content[prev..c].to_vec());
        prev = c;
    }
    out.push(content[prev..].to_vec());
    out
}

fn dst_content(r: &mut Rng, kind: DstKind, maxl: usize, violate: bool) -> Vec<u8> {
    let (min, div) = kind.rule();
    let mut len = if div == 1 { min + ctor::gen_len(r, maxl) } else { min + div * ctor::gen_len(r, (maxl / div).max(2)).min(3000) };
    if violate {
        // break the kind's shape: below the minimum, or off the divisor
        if min > 0 && r.chance(1, 2) {
            len = r.below(min as u64) as usize;
        } else if div > 1 {
            len += 1 + r.below(div as u64 - 1) as usize;
        } else if min > 0 {
            len = r.below(min as u64) as usize;
        }
    }
    let mut c = r.bytes(len);
    if c.iter().all(|&b| b == 0) && r.chance(1, 2) {
        c = pattern(len, 3);
    }
    if kind == DstKind::Framebuffer && c.len() > 21 {
        c[21] %= 3;
    }
    c
}

fn gen_c16(r: &mut Rng) -> Vec<Op> {
    let n_ops = r.range(1, 40) as usize;
    let maxl = max_len(r);
    let precondition_rate = if r.chance(1, 4) { 3 } else { 0 };
    // swarm: a subset of kinds per run
    let boxable: Vec<DstKind> = DstKind::ALL.iter().copied().filter(|k| k.boxable()).collect();
    let mut kinds: Vec<DstKind> = boxable.iter().copied().filter(|_| r.chance(1, 2)).collect();
    if kinds.is_empty() {
        kinds.push(*r.pick(&boxable));
    }
    let w_parsed = if r.chance(1, 2) { r.range(1, 3) } else { 0 };
    let discipline = r.below(4); // 0 lifo, 1 fifo, 2 random, 3 hold to end
    let w_new = r.range(2, 6);
    let w_clone = r.range(1, 5);
    let w_drop = if discipline == 3 { 0 } else { r.range(1, 4) };
    let mut live: Vec<u64> = Vec::new();
    let mut next_slot = 0u64;
    let mut ops = Vec::with_capacity(n_ops);
    for _ in 0..n_ops {
        let total = w_new + w_parsed + if live.is_empty() { 0 } else { w_clone + w_drop };
        let x = r.below(total);
        if x >= total - w_parsed {
            let len = ctor::gen_len(r, maxl);
            let dst = next_slot;
            next_slot += 1;
            live.push(dst);
            ops.push(Op::new(OpKind::CloneParsed, vec![dst, r.below(4), r.scalar(32, 3) | r.below(2), r.below(4)], vec![r.bytes(len)]));
        } else if x < w_new {
            let kind = *r.pick(&kinds);
            let violate = r.below(64) < precondition_rate;
            let content = dst_content(r, kind, maxl, violate);
            let k = match r.below(16) {
                0..=1 => 0,
                2..=7 => 1,
                8..=10 => 2,
                11..=13 => r.range(3, 6) as usize,
                14 => r.range(7, 12) as usize,
                _ => match r.below(8) {
                    0 => *r.pick(&[63usize, 64, 65, 127, 128, 129, 255, 256, 257]),
                    _ => r.range(13, 40) as usize,
                },
            };
            let slices = partition(r, &content, k);
            let dst = next_slot;
            next_slot += 1;
            if !violate {
                live.push(dst);
            }
            // how the caller's slices lie in memory: separate buffers, pieces of
            // one buffer (adjacent), overlapping windows, the same slice repeated
            let alias = match r.below(10) {
                0 => 1,
                1 => 2,
                2 => 3,
                3 => 4,
                _ => 0,
            };
            ops.push(Op::new(OpKind::NewBoxed, vec![dst, kind as u64, r.scalar(32, 1), r.below(4), r.scalar(32, 2), alias], slices));
        } else if x < w_new + w_clone {
            let src = *r.pick(&live);
            let dst = next_slot;
            next_slot += 1;
            live.push(dst);
            ops.push(Op::new(OpKind::CloneDyn, vec![dst, src], vec![]));
        } else {
            let i = match discipline {
                0 => live.len() - 1,
                1 => 0,
                _ => r.below(live.len() as u64) as usize,
            };
            let s = live.remove(i);
            ops.push(Op::new(OpKind::DropObj, vec![s], vec![]));
        }
    }
    ops
}

fn construct_op(kind: OpKind, first: u64, c: Ctor, r: &mut Rng, k: &GenKnobs) -> Op {
    let (a, b) = ctor::gen_args(c, r, k);
    let mut av = vec![first, c as u64];
    av.extend(a);
    Op::new(kind, av, b)
}

fn gen_c07(r: &mut Rng) -> Vec<Op> {
    let n_ops = r.range(1, 30) as usize;
    let knobs = GenKnobs { max_len: max_len(r), precondition_rate: if r.chance(1, 4) { 4 } else { 0 } };
    let density = r.range(1, 4);
    let mut ctors: Vec<Ctor> = ctor::C07_CTORS.iter().copied().filter(|_| r.chance(density, 4)).collect();
    if ctors.is_empty() {
        ctors.push(*r.pick(ctor::C07_CTORS));
    }
    let w_drop = r.below(4);
    let mut live: Vec<u64> = Vec::new();
    let mut next_slot = 0u64;
    let mut ops = Vec::with_capacity(n_ops);
    for _ in 0..n_ops {
        if !live.is_empty() && r.below(6 + w_drop) >= 6 {
            let i = r.below(live.len() as u64) as usize;
            ops.push(Op::new(OpKind::DropObj, vec![live.remove(i)], vec![]));
        } else {
            let c = *r.pick(&ctors);
            let dst = next_slot;
            next_slot += 1;
            live.push(dst);
            ops.push(construct_op(OpKind::Construct, dst, c, r, &knobs));
        }
    }
    ops
}

fn gen_c06(r: &mut Rng) -> Vec<Op> {
    let mut knobs = GenKnobs { max_len: max_len(r), precondition_rate: if r.chance(1, 5) { 2 } else { 0 } };
    let density = r.range(1, 8);
    let mut ctors: Vec<Ctor> = ctor::MBI_SLOT_CTORS.iter().copied().filter(|_| r.chance(density, 8)).collect();
    if ctors.is_empty() && r.chance(3, 4) {
        ctors.push(*r.pick(ctor::MBI_SLOT_CTORS));
    }
    // rare: hundreds of (small) tags in one structure — counters, fixed-size
    // tables and iteration limits only show beyond 2^7, 2^8, 2^10 entries
    let very_long = r.chance(1, 150);
    if very_long {
        knobs.max_len = 24;
        knobs.precondition_rate = 0;
        ctors = vec![Ctor::Module, Ctor::Smbios, Ctor::Custom];
        if r.chance(1, 2) {
            ctors.push(*r.pick(ctor::MBI_SLOT_CTORS));
        }
    }
    let n_builders = if r.chance(1, 6) { 2 } else { 1 };
    let n_sets = if ctors.is_empty() {
        0
    } else if very_long {
        *r.pick(&[120usize, 127, 128, 129, 255, 256, 257, 300, 600, 1025])
    } else if r.chance(1, 12) {
        r.range(31, 90) as usize // many tags: the builder's internal Vec grows several times
    } else {
        r.below(31) as usize
    };
    let dup_rate = if r.chance(1, 3) { r.range(1, 3) } else { 0 };
    // repeat-call probability: high → many overrides and long repeatable lists
    let favourite = if ctors.is_empty() { None } else { Some(*r.pick(&ctors)) };
    let repeat_bias = r.below(4);
    let mut ops = Vec::new();
    for b in 0..n_builders {
        ops.push(Op::new(OpKind::MbiNew, vec![b, r.below(2)], vec![]));
    }
    for _ in 0..n_sets {
        let b = r.below(n_builders);
        // identical content supplied again (same slot): de-duplication,
        // sorting or caching "optimisations" must not change the result
        let sets: Vec<usize> = (0..ops.len()).filter(|&i| ops[i].kind == OpKind::MbiSet).collect();
        if !sets.is_empty() && r.below(8) < dup_rate {
            let mut dup = ops[*r.pick(&sets)].clone();
            dup.a[0] = b;
            ops.push(dup);
            continue;
        }
        let c = if repeat_bias > 0 && r.below(4) < repeat_bias { favourite.unwrap() } else { *r.pick(&ctors) };
        ops.push(construct_op(OpKind::MbiSet, b, c, r, &knobs));
    }
    // rare: one tag of more than a megabyte (a real initrd-sized command line
    // does not exist, but a DHCP blob, an ELF table or a vendor tag of that
    // size is legal) — total sizes beyond 2^20
    if r.chance(1, 150) {
        let c = *r.pick(&[Ctor::Network, Ctor::Custom, Ctor::ElfSections, Ctor::Smbios]);
        let len = *r.pick(&[(1usize << 20) - 40, (1 << 20) + 24, 1_500_000, 2_400_001]);
        let mut op = construct_op(OpKind::MbiSet, 0, c, r, &GenKnobs { max_len: 24, precondition_rate: 0 });
        let fill = r.below(200) as u8;
        op.b[0] = (0..len).map(|i| (i as u8).wrapping_mul(31).wrapping_add(fill)).collect();
        if c == Ctor::Custom {
            op.a[ctor::ARG0] = 0x4d42_0000 + r.below(4);
        }
        let at = r.below(ops.len() as u64 + 1).max(n_builders) as usize;
        ops.insert(at.min(ops.len()), op);
    }
    let mut next = 10u64;
    for b in 0..n_builders {
        ops.push(Op::new(OpKind::MbiBuild, vec![next, b], vec![]));
        next += 1;
    }
    // seeded drop order of the built structures (or hold to the end)
    if r.chance(1, 2) {
        for s in (10..next).rev() {
            if r.chance(1, 2) {
                ops.push(Op::new(OpKind::DropObj, vec![s], vec![]));
            }
        }
    }
    ops
}

fn gen_c12(r: &mut Rng) -> Vec<Op> {
    let knobs = GenKnobs { max_len: max_len(r), precondition_rate: 0 };
    let density = r.range(1, 8);
    let mut ctors: Vec<Ctor> = ctor::HDR_SLOT_CTORS.iter().copied().filter(|_| r.chance(density, 8)).collect();
    if ctors.is_empty() && r.chance(3, 4) {
        ctors.push(*r.pick(ctor::HDR_SLOT_CTORS));
    }
    let n_builders = if r.chance(1, 6) { 2 } else { 1 };
    // mostly short; one history in ten keeps overriding slots for a long time
    // (every slot is single-valued, so only the last call of each may count)
    let n_sets = if ctors.is_empty() {
        0
    } else if r.chance(1, 10) {
        r.range(21, 120) as usize
    } else {
        r.below(21) as usize
    };
    let mut ops = Vec::new();
    for b in 0..n_builders {
        ops.push(Op::new(OpKind::HdrNew, vec![b, r.below(2)], vec![]));
    }
    for _ in 0..n_sets {
        let c = *r.pick(&ctors);
        let b = r.below(n_builders);
        ops.push(construct_op(OpKind::HdrSet, b, c, r, &knobs));
    }
    let mut next = 10u64;
    for b in 0..n_builders {
        ops.push(Op::new(OpKind::HdrBuild, vec![next, b], vec![]));
        next += 1;
    }
    if r.chance(1, 2) {
        for s in (10..next).rev() {
            if r.chance(1, 2) {
                ops.push(Op::new(OpKind::DropObj, vec![s], vec![]));
            }
        }
    }
    ops
}

/// The seeded trace of run `seed` for `prop`.
pub fn gen_trace(prop: Prop, seed: u64) -> Trace {
    let mut r = Rng::fork(seed, STREAM_WORKLOAD);
    let ops = match prop {
        Prop::C06 => gen_c06(&mut r),
        Prop::C07 => gen_c07(&mut r),
        Prop::C12 => gen_c12(&mut r),
        Prop::C16 => gen_c16(&mut r),
    };
    Trace { property: prop.id().to_string(), cfg: draw_cfg(seed), ops }
}

// ---------------------------------------------------------------------------
// Directed corpus (independent of VERIF_SEED)
// ---------------------------------------------------------------------------

/// Byte-distinct marker arguments for `c` with a variable part of `units`
/// elements (bytes, areas, descriptors, requests, colours — per constructor).
pub fn marker_args(c: Ctor, units: usize, trailing_nul: bool) -> (Vec<u64>, Vec<Vec<u8>>) {
    let mut r = Rng::new(0xD1EC_7ED0 ^ (c as u64) << 8 ^ units as u64);
    let knobs = GenKnobs { max_len: 64, precondition_rate: 0 };
    let (mut a, mut b) = ctor::gen_args(c, &mut r, &knobs);
    // scalars: markers, except selectors with a small range
    for (i, v) in a.iter_mut().enumerate() {
        let mut m = 0u64;
        for j in 0..8u64 {
            m |= ((0x21 + 0x10 * i as u64 + j) & 0xff) << (8 * j);
        }
        *v = match (c, i) {
            (Ctor::Framebuffer, 5) => 0,
            (Ctor::Module, 0) => 0x1122_3344,
            (Ctor::Module, 1) => 0x5566_7788,
            (Ctor::EfiMmapFromMap, 0) => 40,
            (Ctor::EfiMmapFromMap, 1) => 1,
            (Ctor::Custom, 0) => 0x1337,
            (Ctor::RsdpV2, 3) => 36,
            (Ctor::HInfoReq, 0)
            | (Ctor::HAddress, 0)
            | (Ctor::HEntryAddress, 0)
            | (Ctor::HConsole, 0)
            | (Ctor::HConsole, 1)
            | (Ctor::HFramebuffer, 0)
            | (Ctor::HModuleAlign, 0)
            | (Ctor::HEfiBs, 0)
            | (Ctor::HEntryEfi32, 0)
            | (Ctor::HEntryEfi64, 0)
            | (Ctor::HRelocatable, 0) => (units as u64 + i as u64) % 2,
            (Ctor::HRelocatable, 4) => units as u64 % 3,
            (Ctor::HTagHdrNew, 0) => units as u64 % 11,
            (Ctor::HTagHdrNew, 1) => units as u64 % 2,
            _ => m,
        };
    }
    let unit = match c {
        Ctor::Mmap => 20,
        Ctor::EfiMmapFromDescs | Ctor::EfiMmapFromMap => 40,
        Ctor::HInfoReq => 4,
        Ctor::Framebuffer => 3,
        _ => 1,
    };
    match c {
        Ctor::Cmdline | Ctor::BootLoaderName | Ctor::Module => {
            let mut s: Vec<u8> = (0..units).map(|i| b'a' + (i % 26) as u8).collect();
            if trailing_nul {
                s.push(0);
            }
            b[0] = s;
        }
        Ctor::Mmap | Ctor::EfiMmapFromDescs | Ctor::EfiMmapFromMap | Ctor::HInfoReq | Ctor::Framebuffer | Ctor::ElfSections
        | Ctor::Smbios | Ctor::Network | Ctor::Custom => {
            b[0] = pattern(units * unit, c as u8);
        }
        _ => {}
    }
    (a, b)
}

fn marker_op(kind: OpKind, first: u64, c: Ctor, units: usize, nul: bool) -> Op {
    let (a, b) = marker_args(c, units, nul);
    let mut av = vec![first, c as u64];
    av.extend(a);
    Op::new(kind, av, b)
}

fn is_variable(c: Ctor) -> bool {
    matches!(
        c,
        Ctor::Cmdline
            | Ctor::BootLoaderName
            | Ctor::Module
            | Ctor::Mmap
            | Ctor::EfiMmapFromDescs
            | Ctor::EfiMmapFromMap
            | Ctor::HInfoReq
            | Ctor::Framebuffer
            | Ctor::ElfSections
            | Ctor::Smbios
            | Ctor::Network
            | Ctor::Custom
    )
}

/// Allocator scripts the directed corpus is run under (besides the baseline,
/// which every evaluation includes anyway).
pub fn directed_cfgs() -> Vec<Config> {
    vec![
        Config { placement: Placement::MinAlign, fill: Fill::Random, realloc_move: true, poison_free: true, fail_at: 0, fail_persist: false, alloc_seed: 7 },
        Config { placement: Placement::ReuseLifo, fill: Fill::Stale, realloc_move: false, poison_free: false, fail_at: 0, fail_persist: false, alloc_seed: 11 },
        Config { placement: Placement::PageEnd, fill: Fill::PatternAA, realloc_move: true, poison_free: true, fail_at: 0, fail_persist: false, alloc_seed: 13 },
    ]
}

pub fn directed(prop: Prop) -> Vec<Trace> {
    let mut traces: Vec<Vec<Op>> = Vec::new();
    match prop {
        Prop::C16 => {
            for hk in 0..4u64 {
                for len in 0..=9usize {
                    for f0 in [0u64, 0xDEAD_BEEF] {
                        traces.push(vec![
                            Op::new(OpKind::CloneParsed, vec![0, hk, f0, len as u64], vec![pattern(len, hk as u8)]),
                            Op::new(OpKind::CloneDyn, vec![1, 0], vec![]),
                            Op::new(OpKind::DropObj, vec![0], vec![]),
                            Op::new(OpKind::CloneDyn, vec![2, 1], vec![]),
                        ]);
                    }
                }
            }
            for kind in DstKind::ALL.into_iter().filter(|k| k.boxable()) {
                let (min, div) = kind.rule();
                let lens: Vec<usize> = if div == 1 { (0..=9).map(|j| min + j).collect() } else { (0..=3).map(|j| min + j * div).collect() };
                for len in lens {
                    let mut content = pattern(len, kind as u8);
                    if kind == DstKind::Framebuffer && content.len() > 21 {
                        content[21] = 1;
                    }
                    let mut shapes: Vec<Vec<Vec<u8>>> = vec![vec![content.clone()]];
                    if len == 0 {
                        shapes.push(vec![]);
                        shapes.push(vec![vec![], vec![]]);
                    } else {
                        shapes.push(vec![vec![], content.clone()]);
                        shapes.push(vec![content.clone(), vec![]]);
                        shapes.push(vec![content[..1].to_vec(), content[1..].to_vec()]);
                        shapes.push(vec![content[..len / 2].to_vec(), vec![], content[len / 2..].to_vec()]);
                    }
                    for slices in shapes {
                        traces.push(vec![
                            Op::new(OpKind::NewBoxed, vec![0, kind as u64, 0x0102_0304 + kind as u64, 1, 0xDEAD_BEEF], slices),
                            Op::new(OpKind::CloneDyn, vec![1, 0], vec![]),
                            Op::new(OpKind::CloneDyn, vec![2, 1], vec![]),
                            Op::new(OpKind::DropObj, vec![0], vec![]),
                            Op::new(OpKind::CloneDyn, vec![3, 1], vec![]),
                            Op::new(OpKind::DropObj, vec![1], vec![]),
                        ]);
                    }
                }
            }
            // Bounded-exhaustive partitions (the property's quantifier): every
            // sequence of 0..=4 slice lengths (zero-length slices included)
            // with total 0..=8, for an 8-byte tag header, the header crate's
            // 8-byte header (u16 fields) and a 12-byte caller-defined header;
            // the slices are separate buffers or adjacent pieces of one buffer
            // in turn. 715 compositions per kind.
            for kind in [DstKind::GenericTag, DstKind::GenericHeaderTag, DstKind::OddHeader] {
                let mut n = 0u64;
                for k in 0..=4usize {
                    let mut lens = vec![0usize; k];
                    loop {
                        let total: usize = lens.iter().sum();
                        if total <= 8 {
                            let mut off = 0usize;
                            let whole = pattern(total, 0x40 + kind as u8);
                            let slices: Vec<Vec<u8>> = lens
                                .iter()
                                .map(|&l| {
                                    let s = whole[off..off + l].to_vec();
                                    off += l;
                                    s
                                })
                                .collect();
                            traces.push(vec![
                                Op::new(OpKind::NewBoxed, vec![0, kind as u64, 0x0A0B_0C0D, 1, 0xFFFF_FFF0 + total as u64, n % 2], slices),
                                Op::new(OpKind::CloneDyn, vec![1, 0], vec![]),
                                Op::new(OpKind::DropObj, vec![0], vec![]),
                            ]);
                            n += 1;
                        }
                        // next length vector in 0..=8 per position
                        let mut i = 0;
                        while i < k {
                            if lens[i] < 8 {
                                lens[i] += 1;
                                break;
                            }
                            lens[i] = 0;
                            i += 1;
                        }
                        if i == k {
                            break;
                        }
                    }
                }
            }
        }
        Prop::C07 => {
            for &c in ctor::C07_CTORS {
                let units: Vec<usize> = if is_variable(c) { (0..=17).collect() } else { vec![0, 1] };
                for u in units {
                    for nul in [false, true] {
                        if nul && !matches!(c, Ctor::Cmdline | Ctor::BootLoaderName | Ctor::Module) {
                            continue;
                        }
                        traces.push(vec![marker_op(OpKind::Construct, 0, c, u, nul), marker_op(OpKind::Construct, 1, c, u + 1, nul)]);
                    }
                }
            }
            // framebuffer colour-info variants
            for kind in [1u64, 2] {
                let mut op = marker_op(OpKind::Construct, 0, Ctor::Framebuffer, 2, false);
                op.a[ctor::ARG0 + 5] = kind;
                traces.push(vec![op]);
            }
        }
        Prop::C06 => {
            // empty builder
            traces.push(vec![Op::new(OpKind::MbiNew, vec![0], vec![]), Op::new(OpKind::MbiBuild, vec![10, 0], vec![])]);
            // every single slot, every padding residue for the variable ones
            for &c in ctor::MBI_SLOT_CTORS {
                let units: Vec<usize> = if is_variable(c) { (0..=8).collect() } else { vec![0] };
                for u in units {
                    traces.push(vec![
                        Op::new(OpKind::MbiNew, vec![0], vec![]),
                        marker_op(OpKind::MbiSet, 0, c, u, false),
                        Op::new(OpKind::MbiBuild, vec![10, 0], vec![]),
                    ]);
                }
            }
            // every ordered pair of slot constructors (same one twice = override / repeat)
            for &c1 in ctor::MBI_SLOT_CTORS {
                for &c2 in ctor::MBI_SLOT_CTORS {
                    traces.push(vec![
                        Op::new(OpKind::MbiNew, vec![0], vec![]),
                        marker_op(OpKind::MbiSet, 0, c1, 3, false),
                        marker_op(OpKind::MbiSet, 0, c2, 5, false),
                        Op::new(OpKind::MbiBuild, vec![10, 0], vec![]),
                    ]);
                }
            }
            // all slots at once, in declaration order and reversed
            for rev in [false, true] {
                let mut ops = vec![Op::new(OpKind::MbiNew, vec![0], vec![])];
                let mut cs: Vec<Ctor> = ctor::MBI_SLOT_CTORS.to_vec();
                if rev {
                    cs.reverse();
                }
                for (i, c) in cs.iter().enumerate() {
                    ops.push(marker_op(OpKind::MbiSet, 0, *c, i % 9, false));
                }
                ops.push(Op::new(OpKind::MbiBuild, vec![10, 0], vec![]));
                traces.push(ops);
            }
        }
        Prop::C12 => {
            // all 2^10 subsets × both architectures, in declaration order
            for arch in 0..2u64 {
                for mask in 0u32..1024 {
                    let mut ops = vec![Op::new(OpKind::HdrNew, vec![0, arch], vec![])];
                    for (i, &c) in ctor::HDR_SLOT_CTORS.iter().enumerate() {
                        if mask & (1 << i) != 0 {
                            ops.push(marker_op(OpKind::HdrSet, 0, c, (mask as usize + i) % 9, false));
                        }
                    }
                    ops.push(Op::new(OpKind::HdrBuild, vec![10, 0], vec![]));
                    traces.push(ops);
                }
            }
            // every ordered pair (override included), reversed full order
            for &c1 in ctor::HDR_SLOT_CTORS {
                for &c2 in ctor::HDR_SLOT_CTORS {
                    traces.push(vec![
                        Op::new(OpKind::HdrNew, vec![0, 1], vec![]),
                        marker_op(OpKind::HdrSet, 0, c1, 3, false),
                        marker_op(OpKind::HdrSet, 0, c2, 6, false),
                        Op::new(OpKind::HdrBuild, vec![10, 0], vec![]),
                    ]);
                }
            }
            for n in 0..=17usize {
                traces.push(vec![
                    Op::new(OpKind::HdrNew, vec![0, 0], vec![]),
                    marker_op(OpKind::HdrSet, 0, Ctor::HInfoReq, n, false),
                    Op::new(OpKind::HdrBuild, vec![10, 0], vec![]),
                ]);
            }
        }
    }
    let cfgs = directed_cfgs();
    traces
        .into_iter()
        .enumerate()
        .map(|(i, ops)| Trace { property: prop.id().to_string(), cfg: cfgs[i % cfgs.len()], ops })
        .collect()
}

/// The 22 builder slots in declaration order, one constructor each.
const SLOT_ORDER: [Ctor; 22] = [
    Ctor::Cmdline,
    Ctor::BootLoaderName,
    Ctor::Module,
    Ctor::BasicMeminfo,
    Ctor::Bootdev,
    Ctor::Mmap,
    Ctor::Vbe,
    Ctor::Framebuffer,
    Ctor::ElfSections,
    Ctor::Apm,
    Ctor::Efi32,
    Ctor::Efi64,
    Ctor::Smbios,
    Ctor::RsdpV1,
    Ctor::RsdpV2,
    Ctor::Network,
    Ctor::EfiMmapFromDescs,
    Ctor::EfiBsNew,
    Ctor::Efi32Ih,
    Ctor::Efi64Ih,
    Ctor::ImageLoadAddr,
    Ctor::Custom,
];

/// C06: the trace that sets exactly the slots of subset number `idx`.
/// `idx → mask` multiplies by an odd constant modulo 2^22: a bijection, so a
/// prefix of the index range is a well-spread sample and the full range is
/// every subset exactly once.
pub fn subset_trace(prop: Prop, idx: u64) -> Option<Trace> {
    if prop != Prop::C06 || idx >= 1 << 22 {
        return None;
    }
    let mask = (idx.wrapping_mul(0x9E37_79B1)) & ((1 << 22) - 1);
    let mut ops = vec![Op::new(OpKind::MbiNew, vec![0], vec![])];
    for (i, &c) in SLOT_ORDER.iter().enumerate() {
        if mask & (1 << i) != 0 {
            ops.push(marker_op(OpKind::MbiSet, 0, c, ((mask >> 3) as usize + i) % 9, false));
        }
    }
    ops.push(Op::new(OpKind::MbiBuild, vec![10, 0], vec![]));
    let cfgs = directed_cfgs();
    Some(Trace { property: prop.id().to_string(), cfg: cfgs[(mask % cfgs.len() as u64) as usize], ops })
}
