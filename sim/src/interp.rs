//! The interpreter: executes one trace against the real crates under one
//! allocator script, with the reference models and oracles of DESIGN.md §3.6.
//!
//! Everything here runs on one thread; the allocator scope is entered only
//! around calls into the library (constructors, setters, `build`, `new_boxed`,
//! `clone_dyn`, `Box::new` placements).

use crate::ctor::{self, addr_of, hex, image_of, panic_text, view_of, Built, Ctor, Held, ScopeOff};
use crate::ops::{Op, OpKind, Trace};
use crate::rng::Digest;
use crate::simalloc::{self, Scope};
use multiboot2 as mb;
use multiboot2::MaybeDynSized;
use multiboot2_common::test_utils::{DummyDstTag, DummyTestHeader};
use multiboot2_header as mh;
use std::collections::BTreeMap;
use std::panic::{catch_unwind, AssertUnwindSafe};

#[derive(Clone, Copy, Debug, PartialEq, Eq, PartialOrd, Ord)]
pub enum Prop {
    C06,
    C07,
    C12,
    C16,
}

impl Prop {
    pub fn id(self) -> &'static str {
        match self {
            Prop::C06 => "C06",
            Prop::C07 => "C07",
            Prop::C12 => "C12",
            Prop::C16 => "C16",
        }
    }
    pub fn from_id(s: &str) -> Option<Self> {
        match s {
            "C06" => Some(Prop::C06),
            "C07" => Some(Prop::C07),
            "C12" => Some(Prop::C12),
            "C16" => Some(Prop::C16),
            _ => None,
        }
    }
}

#[derive(Clone, Debug)]
pub struct Violation {
    /// `property/clause/kind` — what known_findings.json is matched on.
    pub sig: String,
    pub detail: String,
    pub op: usize,
}

#[derive(Default, Clone, Debug)]
pub struct Probes(pub BTreeMap<String, u64>);

impl Probes {
    pub fn hit(&mut self, name: &str) {
        *self.0.entry(name.to_string()).or_insert(0) += 1;
    }
    pub fn add(&mut self, name: &str, n: u64) {
        if n > 0 {
            *self.0.entry(name.to_string()).or_insert(0) += n;
        }
    }
    pub fn merge(&mut self, other: &Probes) {
        for (k, v) in &other.0 {
            *self.0.entry(k.clone()).or_insert(0) += v;
        }
    }
}

pub struct RunOutput {
    pub violations: Vec<Violation>,
    /// per op: hash of the normalised observables (no addresses, no padding)
    pub transcript: Vec<u64>,
    pub digest: u64,
    /// event-order signature: op kinds and allocator events with values erased
    pub shape: u64,
    pub probes: Probes,
    pub harness_error: Option<String>,
    pub counters: simalloc::Counters,
    pub model_comparisons: u64,
    pub oom_fired: bool,
    pub alloc_requests: u32,
}

// ---------------------------------------------------------------------------
// DST objects (C16)
// ---------------------------------------------------------------------------

#[derive(Clone, Copy, Debug, PartialEq, Eq, PartialOrd, Ord)]
#[repr(u64)]
pub enum DstKind {
    GenericTag = 0,
    GenericHeaderTag = 1,
    DummyDst = 2,
    GenericDummy = 3,
    Cmdline = 4,
    BootLoaderName = 5,
    Module = 6,
    Mmap = 7,
    Framebuffer = 8,
    ElfSections = 9,
    Smbios = 10,
    Network = 11,
    EfiMmap = 12,
    InfoReq = 13,
    /// parsed from raw bytes (`ref_from_slice`) and cloned — the only public
    /// way to get heap objects with these two header types and with header
    /// field values the constructors never produce
    ParsedMbi = 14,
    ParsedHdr = 15,
    ParsedTag = 16,
    ParsedHeaderTag = 17,
    /// `DynSizedStructure<OddHeader>`: a caller-defined 12-byte, 4-aligned
    /// header (legal for the generic machinery; none of the in-tree headers has
    /// a size that is not a multiple of 8)
    OddHeader = 18,
}

/// A header type the harness brings itself: 12 bytes, alignment 4.
#[derive(Clone, Debug, PartialEq, Eq)]
#[repr(C)]
pub struct OddHeader {
    typ: u32,
    size: u32,
    extra: u32,
}

impl multiboot2_common::Header for OddHeader {
    fn payload_len(&self) -> usize {
        self.size as usize - std::mem::size_of::<Self>()
    }
    fn set_size(&mut self, total_size: usize) {
        self.size = total_size as u32;
    }
}

impl DstKind {
    pub const ALL: [DstKind; 19] = [
        DstKind::GenericTag,
        DstKind::GenericHeaderTag,
        DstKind::DummyDst,
        DstKind::GenericDummy,
        DstKind::Cmdline,
        DstKind::BootLoaderName,
        DstKind::Module,
        DstKind::Mmap,
        DstKind::Framebuffer,
        DstKind::ElfSections,
        DstKind::Smbios,
        DstKind::Network,
        DstKind::EfiMmap,
        DstKind::InfoReq,
        DstKind::ParsedMbi,
        DstKind::ParsedHdr,
        DstKind::ParsedTag,
        DstKind::ParsedHeaderTag,
        DstKind::OddHeader,
    ];
    /// kinds that `new_boxed` can be asked for directly: the first 14 and `OddHeader`
    pub const BOXABLE: usize = 14;
    pub fn boxable(self) -> bool {
        (self as usize) < Self::BOXABLE || self == DstKind::OddHeader
    }
    pub fn header_len(self) -> usize {
        match self {
            DstKind::OddHeader => 12,
            DstKind::ParsedHdr => 16,
            _ => 8,
        }
    }
    pub fn from_u64(v: u64) -> Option<Self> {
        Self::ALL.get(v as usize).copied()
    }
    pub fn name(self) -> &'static str {
        match self {
            DstKind::GenericTag => "GenericTag",
            DstKind::GenericHeaderTag => "GenericHeaderTag",
            DstKind::DummyDst => "DummyDst",
            DstKind::GenericDummy => "GenericDummy",
            DstKind::Cmdline => "Cmdline",
            DstKind::BootLoaderName => "BootLoaderName",
            DstKind::Module => "Module",
            DstKind::Mmap => "Mmap",
            DstKind::Framebuffer => "Framebuffer",
            DstKind::ElfSections => "ElfSections",
            DstKind::Smbios => "Smbios",
            DstKind::Network => "Network",
            DstKind::EfiMmap => "EfiMmap",
            DstKind::InfoReq => "InfoReq",
            DstKind::ParsedMbi => "ParsedMbi",
            DstKind::ParsedHdr => "ParsedHdr",
            DstKind::ParsedTag => "ParsedTag",
            DstKind::ParsedHeaderTag => "ParsedHeaderTag",
            DstKind::OddHeader => "OddHeader",
        }
    }
    /// (minimum content length, divisor of the remainder): the shape each
    /// kind's `dst_len` documents/asserts.
    pub fn rule(self) -> (usize, usize) {
        match self {
            DstKind::Module => (8, 1),
            DstKind::Mmap => (8, 24),
            DstKind::Framebuffer => (24, 1),
            DstKind::ElfSections => (12, 1),
            DstKind::Smbios => (8, 1),
            DstKind::EfiMmap => (8, 1),
            DstKind::InfoReq => (0, 4),
            _ => (0, 1),
        }
    }
    pub fn content_ok(self, len: usize) -> bool {
        let (min, div) = self.rule();
        len >= min && (len - min) % div == 0
    }
}

pub trait DstObj {
    fn image(&self) -> Result<Vec<u8>, String>;
    fn view(&self) -> Result<(usize, usize), String>;
    fn addr(&self) -> usize;
    fn size_of_val(&self) -> usize;
    /// the fat pointer's metadata: the element count of the typed view's
    /// dynamically sized tail
    fn meta(&self) -> usize;
    fn as_any(&self) -> &dyn std::any::Any;
    /// `self == other` with the type's own `PartialEq`; `None` when `other`
    /// is not the same type
    fn eq_dyn(&self, other: &dyn DstObj) -> Option<bool>;
    /// `clone_dyn` of the real crate, inside the allocator scope.
    fn clone_dyn(&self) -> Box<dyn DstObj>;
}

/// The type's own `==`, where it has one (`NetworkTag` does not).
pub trait EqProbe {
    fn probe_eq(&self, other: &Self) -> Option<bool>;
}
impl<H: multiboot2_common::Header + PartialEq> EqProbe for mb::DynSizedStructure<H> {
    fn probe_eq(&self, other: &Self) -> Option<bool> {
        Some(self == other)
    }
}
macro_rules! eq_probe {
    ($($t:ty),*) => {$(
        impl EqProbe for $t {
            fn probe_eq(&self, other: &Self) -> Option<bool> {
                Some(self == other)
            }
        }
    )*};
}
eq_probe!(
    DummyDstTag,
    mb::CommandLineTag,
    mb::BootLoaderNameTag,
    mb::ModuleTag,
    mb::MemoryMapTag,
    mb::FramebufferTag,
    mb::ElfSectionsTag,
    mb::SmbiosTag,
    mb::EFIMemoryMapTag,
    mh::InformationRequestHeaderTag
);
impl EqProbe for mb::NetworkTag {
    fn probe_eq(&self, _other: &Self) -> Option<bool> {
        None
    }
}

impl<T: MaybeDynSized<Metadata = usize> + EqProbe + ?Sized + 'static> DstObj for Box<T> {
    fn image(&self) -> Result<Vec<u8>, String> {
        image_of::<T>(self)
    }
    fn view(&self) -> Result<(usize, usize), String> {
        view_of::<T>(self)
    }
    fn addr(&self) -> usize {
        addr_of::<T>(self)
    }
    fn size_of_val(&self) -> usize {
        std::mem::size_of_val::<T>(self)
    }
    fn meta(&self) -> usize {
        ptr_meta::metadata::<T>(&**self as *const T)
    }
    fn as_any(&self) -> &dyn std::any::Any {
        self
    }
    fn eq_dyn(&self, other: &dyn DstObj) -> Option<bool> {
        other.as_any().downcast_ref::<Box<T>>().and_then(|o| (**self).probe_eq(&**o))
    }
    fn clone_dyn(&self) -> Box<dyn DstObj> {
        let c: Box<T> = {
            let _s = Scope::enter();
            multiboot2_common::clone_dyn::<T>(self)
        };
        Box::new(c)
    }
}

fn mk<T: MaybeDynSized<Metadata = usize> + EqProbe + ?Sized + 'static>(h: T::Header, slices: &[&[u8]]) -> Box<dyn DstObj> {
    let b: Box<T> = {
        let _s = Scope::enter();
        multiboot2_common::new_boxed::<T>(h, slices)
    };
    Box::new(b)
}

fn make_dst(kind: DstKind, typ: u64, aux: u64, garbage: u64, slices: &[&[u8]]) -> Box<dyn DstObj> {
    let th = || mb::TagHeader::new(typ as u32, garbage as u32);
    let dh = || DummyTestHeader::new(typ as u32, garbage as u32);
    match kind {
        DstKind::GenericTag => mk::<mb::DynSizedStructure<mb::TagHeader>>(th(), slices),
        DstKind::GenericHeaderTag => mk::<mh::DynSizedStructure<mh::HeaderTagHeader>>(
            mh::HeaderTagHeader::new(hdr_type(typ), hdr_flag(aux), garbage as u32),
            slices,
        ),
        DstKind::DummyDst => mk::<DummyDstTag>(dh(), slices),
        DstKind::GenericDummy => mk::<mb::DynSizedStructure<DummyTestHeader>>(dh(), slices),
        DstKind::Cmdline => mk::<mb::CommandLineTag>(th(), slices),
        DstKind::BootLoaderName => mk::<mb::BootLoaderNameTag>(th(), slices),
        DstKind::Module => mk::<mb::ModuleTag>(th(), slices),
        DstKind::Mmap => mk::<mb::MemoryMapTag>(th(), slices),
        DstKind::Framebuffer => mk::<mb::FramebufferTag>(th(), slices),
        DstKind::ElfSections => mk::<mb::ElfSectionsTag>(th(), slices),
        DstKind::Smbios => mk::<mb::SmbiosTag>(th(), slices),
        DstKind::Network => mk::<mb::NetworkTag>(th(), slices),
        DstKind::EfiMmap => mk::<mb::EFIMemoryMapTag>(th(), slices),
        DstKind::InfoReq => mk::<mh::InformationRequestHeaderTag>(
            mh::HeaderTagHeader::new(hdr_type(typ), hdr_flag(aux), garbage as u32),
            slices,
        ),
        DstKind::OddHeader => {
            mk::<mb::DynSizedStructure<OddHeader>>(OddHeader { typ: typ as u32, size: garbage as u32, extra: aux as u32 ^ 0xA5A5_0000 }, slices)
        }
        _ => unreachable!("parsed kinds are not made by new_boxed"),
    }
}

fn hdr_type(v: u64) -> mh::HeaderTagType {
    use mh::HeaderTagType::*;
    match v % 11 {
        0 => End,
        1 => InformationRequest,
        2 => Address,
        3 => EntryAddress,
        4 => ConsoleFlags,
        5 => Framebuffer,
        6 => ModuleAlign,
        7 => EfiBS,
        8 => EntryAddressEFI32,
        9 => EntryAddressEFI64,
        _ => Relocatable,
    }
}

fn hdr_flag(v: u64) -> mh::HeaderTagFlag {
    if v % 2 == 0 {
        mh::HeaderTagFlag::Required
    } else {
        mh::HeaderTagFlag::Optional
    }
}

/// Boxed model: header with patched size ‖ concatenated content.
fn boxed_model(kind: DstKind, typ: u64, aux: u64, slices: &[Vec<u8>]) -> Vec<u8> {
    if kind == DstKind::OddHeader {
        let total: usize = 12 + slices.iter().map(|s| s.len()).sum::<usize>();
        let mut m = Vec::with_capacity(total);
        m.extend_from_slice(&(typ as u32).to_le_bytes());
        m.extend_from_slice(&(total as u32).to_le_bytes());
        m.extend_from_slice(&(aux as u32 ^ 0xA5A5_0000).to_le_bytes());
        for s in slices {
            m.extend_from_slice(s);
        }
        return m;
    }
    let total: usize = 8 + slices.iter().map(|s| s.len()).sum::<usize>();
    let mut m = Vec::with_capacity(total);
    match kind {
        DstKind::GenericHeaderTag | DstKind::InfoReq => {
            m.extend_from_slice(&((typ % 11) as u16).to_le_bytes());
            m.extend_from_slice(&((aux % 2) as u16).to_le_bytes());
        }
        _ => m.extend_from_slice(&(typ as u32).to_le_bytes()),
    }
    m.extend_from_slice(&(total as u32).to_le_bytes());
    for s in slices {
        m.extend_from_slice(s);
    }
    m
}

fn round_up8(n: usize) -> usize {
    (n + 7) & !7
}

// ---------------------------------------------------------------------------
// Builder models
// ---------------------------------------------------------------------------

#[derive(Default)]
struct BuilderModel {
    /// slot → every image supplied, in call order (single-valued: last wins)
    slots: BTreeMap<&'static str, (bool, Vec<Vec<u8>>)>,
    calls: u64,
}

impl BuilderModel {
    fn supply(&mut self, slot: &'static str, repeatable: bool, image: Vec<u8>) {
        self.slots.entry(slot).or_insert((repeatable, vec![])).1.push(image);
        self.calls += 1;
    }
    /// Expected tags: (slot, image, earlier images of a single-valued slot)
    fn expected(&self) -> Vec<(&'static str, bool, Vec<u8>, Vec<Vec<u8>>)> {
        let mut v = Vec::new();
        for (slot, (rep, imgs)) in &self.slots {
            if *rep {
                for i in imgs {
                    v.push((*slot, true, i.clone(), vec![]));
                }
            } else if let Some(last) = imgs.last() {
                v.push((*slot, false, last.clone(), imgs[..imgs.len() - 1].to_vec()));
            }
        }
        v
    }
}

enum Obj {
    Dst { kind: DstKind, obj: Box<dyn DstObj>, model: Vec<u8>, snapshot: Option<Vec<u8>> },
    Tag { held: Box<dyn Held>, ctor: Ctor, want: ctor::Spec },
    Mbi { b: Option<mb::Builder>, model: BuilderModel },
    Hdr { b: Option<mh::Builder>, model: BuilderModel, arch: u32 },
    BuiltMbi { s: Box<mb::DynSizedStructure<mb::BootInformationHeader>>, snapshot: Vec<u8> },
    BuiltHdr { s: Box<mh::DynSizedStructure<mh::Multiboot2BasicHeader>>, snapshot: Vec<u8> },
}

pub struct Interp {
    prop: Prop,
    objs: Vec<Option<Obj>>,
    violations: Vec<Violation>,
    transcript: Vec<u64>,
    probes: Probes,
    shape: Digest,
    model_comparisons: u64,
    /// ops (1-based, as the allocator sees them) whose library call ended in a
    /// by-contract panic: blocks they leaked are not judged (DESIGN §3.6 note 4)
    excused_ops: Vec<u32>,
    harness_error: Option<String>,
    cur: usize,
    oom_seen: u64,
}

enum Call<T> {
    Ok(T),
    /// panic attributable to an injected allocation failure
    OomPanic(String),
    Panic(String),
}

impl Interp {
    fn new(prop: Prop) -> Self {
        Self {
            prop,
            objs: Vec::new(),
            violations: Vec::new(),
            transcript: Vec::new(),
            probes: Probes::default(),
            shape: Digest::default(),
            model_comparisons: 0,
            excused_ops: Vec::new(),
            harness_error: None,
            cur: 0,
            oom_seen: 0,
        }
    }

    fn viol(&mut self, clause: &str, kind: &str, detail: String) {
        let sig = format!("{}/{}/{}", self.prop.id(), clause, kind);
        // one violation per signature per run is enough
        if self.violations.iter().any(|v| v.sig == sig) {
            return;
        }
        self.violations.push(Violation { sig, detail, op: self.cur });
    }

    /// Runs a library call under `catch_unwind` and classifies a panic.
    fn call<T>(&mut self, f: impl FnOnce() -> T) -> Call<T> {
        let before = simalloc::counters().failed_allocs;
        let r = catch_unwind(AssertUnwindSafe(f));
        simalloc::deactivate();
        let failed = simalloc::counters().failed_allocs > before;
        if failed {
            self.oom_seen += 1;
        }
        match r {
            Ok(v) => Call::Ok(v),
            Err(p) => {
                let msg = panic_text(p);
                if failed {
                    self.probes.hit("oom_landed_in_new_boxed_panic");
                    Call::OomPanic(msg)
                } else {
                    Call::Panic(msg)
                }
            }
        }
    }

    fn slot(&mut self, i: u64) -> Option<&mut Option<Obj>> {
        let i = i as usize;
        if i >= 256 {
            return None;
        }
        if self.objs.len() <= i {
            self.objs.resize_with(i + 1, || None);
        }
        Some(&mut self.objs[i])
    }

    fn put(&mut self, i: u64, o: Obj) {
        let old = match self.slot(i) {
            Some(s) => s.replace(o),
            None => {
                drop(o);
                return;
            }
        };
        if let Some(old) = old {
            self.drop_obj(old, false);
        }
    }

    fn take(&mut self, i: u64) -> Option<Obj> {
        self.slot(i).and_then(|s| s.take())
    }

    fn note(&mut self, words: &[u64], bytes: &[u8]) {
        let mut d = Digest::default();
        for w in words {
            d.u64(*w);
        }
        d.bytes(bytes);
        self.transcript.push(d.finish());
    }

    // -- C16 ---------------------------------------------------------------

    /// Clauses of C16 that every heap-constructed object must satisfy.
    fn check_dst_object(&mut self, kind: DstKind, obj: &dyn DstObj, model: &[u8], what: &str) -> Option<Vec<u8>> {
        let k = kind.name();
        let total = model.len();
        let addr = obj.addr();
        if addr % 8 != 0 {
            self.viol("align", k, format!("{what}: object address ≡ {} (mod 8)", addr % 8));
        }
        match simalloc::live_block_at(addr) {
            Some(b) => {
                if b.size != round_up8(total) || b.align != 8 {
                    self.viol(
                        "alloc-layout",
                        k,
                        format!("{what}: allocated with (size {}, align {}), expected ({}, 8) for {} bytes", b.size, b.align, round_up8(total), total),
                    );
                }
                if b.off % 16 == 8 {
                    self.probes.hit("dst_result_at_8_mod_16");
                }
            }
            None if !simalloc::tracking() => {}
            None => self.viol("alloc-layout", k, format!("{what}: object does not start at a live allocation")),
        }
        // the byte view must be exactly the object: same address, size_of_val bytes
        if let Ok((vp, vl)) = obj.view() {
            if vp != addr || vl != obj.size_of_val() {
                self.viol("byte-view", k, format!("{what}: as_bytes() covers {vl} bytes at +{} of an object of {} bytes", vp.wrapping_sub(addr) as isize, obj.size_of_val()));
            }
        }
        // the typed view: the fat pointer's element count is what the kind's
        // `dst_len` rule gives for exactly this content — not for the content
        // plus its alignment padding (size_of_val cannot tell the two apart)
        if total >= kind.header_len() && kind.content_ok(total - kind.header_len()) {
            let (min, div) = kind.rule();
            let want = (total - kind.header_len() - min) / div;
            let got = obj.meta();
            if got != want {
                let clause = if what.starts_with("clone") { "clone-metadata" } else { "metadata" };
                self.viol(clause, k, format!("{what}: the typed view has {got} trailing elements, expected {want} for {} content bytes", total - kind.header_len()));
            }
        }
        // ... and for content the kind's rule does not accept (where the
        // unchanged tree panics by contract): if an object comes back at all,
        // its typed view must at least stay inside the content
        if total >= kind.header_len() && !kind.content_ok(total - kind.header_len()) {
            let (min, div) = kind.rule();
            let got = obj.meta();
            let content = total - kind.header_len();
            if min + got * div > content {
                self.viol("metadata", k, format!("{what}: the typed view ({min} fixed bytes and {got} trailing elements of {div}) reaches past the {content} content bytes"));
            }
        }
        let sov = obj.size_of_val();
        if sov != round_up8(total) {
            self.viol("size-of-val", k, format!("{what}: size_of_val = {sov}, expected {}", round_up8(total)));
        }
        self.model_comparisons += 1;
        match obj.image() {
            Err(msg) => {
                self.viol("as-bytes-panic", k, format!("{what}: as_bytes() panicked: {msg}"));
                None
            }
            Ok(img) => {
                // where this kind's header keeps its size (tag headers: +4;
                // boot information header: +0; Multiboot2 header: +8)
                let so = match kind {
                    DstKind::ParsedMbi => 0,
                    DstKind::ParsedHdr => 8,
                    _ => 4,
                };
                if img.len() >= so + 4 {
                    let declared = u32::from_le_bytes(img[so..so + 4].try_into().unwrap()) as usize;
                    if declared != total {
                        let clause = if what.starts_with("clone") { "clone-size" } else { "size-field" };
                        self.viol(clause, k, format!("{what}: size field {declared}, expected {total}"));
                    }
                }
                let n = total.min(img.len());
                // the size field is judged by its own clause
                let differs = |i: usize| !(so..so + 4).contains(&i) && img[i] != model[i];
                if img.len() < total || (0..n).any(differs) {
                    let clause = if what.starts_with("clone") { "clone-bytes" } else { "content" };
                    let at = (0..n).find(|&i| differs(i)).unwrap_or(n);
                    self.viol(
                        clause,
                        k,
                        format!("{what}: byte {at} differs (view {} bytes): got {} want {}", img.len(), hex(&img[..n]), hex(&model[..n])),
                    );
                }
                Some(img)
            }
        }
    }

    /// Raw bytes → `ref_from_slice` → `clone_dyn`: the clone must equal the
    /// parsed source byte for byte up to its size.
    fn op_clone_parsed(&mut self, op: &Op) {
        let content = op.bytes(0);
        if content.len() > 1 << 18 {
            return self.skip();
        }
        let (f0, f1) = (op.arg(2), op.arg(3));
        let hk = op.arg(1) % 4;
        let (kind, hdr): (DstKind, Vec<u8>) = match hk {
            0 => {
                let mut h = ((8 + content.len()) as u32).to_le_bytes().to_vec();
                h.extend_from_slice(&(f0 as u32).to_le_bytes());
                (DstKind::ParsedMbi, h)
            }
            1 => {
                // only genuine Multiboot2 headers: with any other magic the
                // crate's checksum arithmetic is outside its domain (a C10
                // matter, not a heap-construction one)
                let arch: u32 = if f1 % 2 == 0 { 0 } else { 4 };
                let len = (16 + content.len()) as u32;
                // odd f0: a foreign magic, as long as it stays inside the
                // domain of the crate's checksum arithmetic
                let foreign = f0 as u32;
                let magic = if f0 % 2 == 1 && foreign as u64 + arch as u64 + len as u64 <= 0x1_0000_0000 {
                    foreign
                } else {
                    0xE852_50D6u32
                };
                let ck = 0u32.wrapping_sub(magic).wrapping_sub(arch).wrapping_sub(len);
                let mut h = Vec::new();
                for w in [magic, arch, len, ck] {
                    h.extend_from_slice(&w.to_le_bytes());
                }
                (DstKind::ParsedHdr, h)
            }
            2 => {
                let mut h = (f0 as u32).to_le_bytes().to_vec();
                h.extend_from_slice(&((8 + content.len()) as u32).to_le_bytes());
                (DstKind::ParsedTag, h)
            }
            _ => {
                let mut h = ((f0 % 11) as u16).to_le_bytes().to_vec();
                h.extend_from_slice(&((f1 % 2) as u16).to_le_bytes());
                h.extend_from_slice(&((8 + content.len()) as u32).to_le_bytes());
                (DstKind::ParsedHeaderTag, h)
            }
        };
        let mut model = hdr;
        model.extend_from_slice(content);
        // 8-aligned source buffer; its padding is deliberately not zero
        let words = (model.len() + 7) / 8;
        let mut store = vec![0xEEEE_EEEE_EEEE_EEEEu64; words];
        let raw: &mut [u8] = unsafe { std::slice::from_raw_parts_mut(store.as_mut_ptr().cast::<u8>(), words * 8) };
        raw[..model.len()].copy_from_slice(&model);
        let raw: &[u8] = raw;
        fn go<H: multiboot2_common::Header + PartialEq + 'static>(raw: &[u8]) -> Option<Box<dyn DstObj>> {
            let src = mb::DynSizedStructure::<H>::ref_from_slice(raw).ok()?;
            let c: Box<mb::DynSizedStructure<H>> = {
                let _s = Scope::enter();
                multiboot2_common::clone_dyn(src)
            };
            Some(Box::new(c))
        }
        let r = self.call(|| match hk {
            0 => go::<mb::BootInformationHeader>(raw),
            1 => go::<mh::Multiboot2BasicHeader>(raw),
            2 => go::<mb::TagHeader>(raw),
            _ => go::<mh::HeaderTagHeader>(raw),
        });
        self.probes.hit(&format!("clone_parsed/{}/residue{}", kind.name(), model.len() % 8));
        match r {
            Call::Ok(Some(c)) => {
                let img = self.check_dst_object(kind, &*c, &model, "clone_dyn(parsed)");
                let n = model.len();
                self.note(&[60, kind as u64], img.as_deref().map(|i| &i[..n.min(i.len())]).unwrap_or(&[]));
                self.put(op.arg(0), Obj::Dst { kind, obj: c, model, snapshot: img });
            }
            Call::Ok(None) => {
                self.probes.hit("clone_parsed_rejected_by_ref_from_slice");
                self.note(&[61, kind as u64], &[]);
            }
            Call::OomPanic(_) => self.note(&[62, kind as u64], &[]),
            Call::Panic(msg) => {
                self.viol("clone-panic", kind.name(), format!("ref_from_slice/clone_dyn panicked on a well-formed structure: {msg}"));
                self.excused_ops.push(self.cur as u32 + 1);
                self.note(&[63, kind as u64], &[]);
            }
        }
    }

    fn op_new_boxed(&mut self, op: &Op) {
        let Some(kind) = DstKind::from_u64(op.arg(1)).filter(|k| k.boxable()) else { return self.skip() };
        let (typ, aux, garbage) = (op.arg(2), op.arg(3), op.arg(4));
        let total_content: usize = op.b.iter().map(|s| s.len()).sum();
        if total_content > 1 << 18 {
            return self.skip();
        }
        if kind == DstKind::Framebuffer {
            let flat: Vec<u8> = op.b.iter().flatten().copied().collect();
            if flat.len() > 21 && flat[21] > 2 {
                return self.skip();
            }
        }
        // How the caller's slices lie in memory (a[5]): 0 separate buffers,
        // 1 consecutive pieces of one buffer, 2 overlapping windows of one
        // buffer, 3 the same slice passed repeatedly. `actual` is what each
        // slice holds — the model is always their plain concatenation.
        let flat: Vec<u8> = op.b.iter().flatten().copied().collect();
        let alias = if kind == DstKind::Framebuffer { op.arg(5) % 2 } else { op.arg(5) % 5 };
        let mut ranges: Vec<(usize, usize)> = Vec::with_capacity(op.b.len());
        let mut cum = 0usize;
        for v in &op.b {
            let start = match alias {
                2 => (cum * 2 / 3).min(flat.len() - v.len()),
                3 => 0,
                _ => cum,
            };
            let len = if alias == 3 { op.b[0].len() } else { v.len() };
            ranges.push((start, len));
            cum += v.len();
        }
        if alias == 4 && ranges.len() >= 4 {
            // pieces of one buffer, first and last where they are, the middle
            // ones rotated: still one buffer from first start to last end
            let last = ranges.len() - 1;
            ranges[1..last].rotate_left(1);
        }
        let slices: Vec<&[u8]> = if alias == 0 {
            op.b.iter().map(|v| v.as_slice()).collect()
        } else {
            ranges.iter().map(|&(s0, l)| &flat[s0..s0 + l]).collect()
        };
        let actual: Vec<Vec<u8>> = slices.iter().map(|s| s.to_vec()).collect();
        let total_content: usize = actual.iter().map(|s| s.len()).sum();
        if alias != 0 {
            self.probes.hit(match alias {
                1 => "new_boxed_slices_adjacent_in_one_buffer",
                2 => "new_boxed_slices_overlapping",
                3 => "new_boxed_same_slice_repeated",
                _ => "new_boxed_slices_of_one_buffer_out_of_order",
            });
        }
        let precondition_broken = !kind.content_ok(total_content);
        let model = boxed_model(kind, typ, aux, &actual);
        let r = self.call(|| make_dst(kind, typ, aux, garbage, &slices));
        // probes
        self.probes.hit(&format!("new_boxed/{}/residue{}", kind.name(), (8 + total_content) % 8));
        if op.b.is_empty() {
            self.probes.hit("partition_with_0_slices");
        }
        if op.b.iter().any(|s| s.is_empty()) {
            self.probes.hit("empty_slice_in_partition");
        }
        match r {
            Call::Ok(obj) => {
                let img = self.check_dst_object(kind, &*obj, &model, "new_boxed");
                let n = model.len();
                self.note(&[1, kind as u64], img.as_deref().map(|i| &i[..n.min(i.len())]).unwrap_or(&[]));
                self.put(op.arg(0), Obj::Dst { kind, obj, model, snapshot: img });
            }
            Call::OomPanic(_) => {
                if precondition_broken {
                    // whatever the failure did, this call was going to panic by
                    // contract after its allocation: the same excuse applies
                    self.excused_ops.push(self.cur as u32 + 1);
                }
                self.note(&[2, kind as u64], &[]);
            }
            Call::Panic(msg) => {
                if precondition_broken {
                    self.probes.hit("leak_on_ctor_panic");
                    self.excused_ops.push(self.cur as u32 + 1);
                    self.note(&[3, kind as u64], &[]);
                } else {
                    self.viol("panic", kind.name(), format!("new_boxed panicked for well-formed input: {msg}"));
                    self.excused_ops.push(self.cur as u32 + 1);
                    self.note(&[4, kind as u64], &[]);
                }
            }
        }
    }

    fn op_clone_dyn(&mut self, op: &Op) {
        let src = op.arg(1) as usize;
        let (kind, model, res) = match self.objs.get(src).and_then(|o| o.as_ref()) {
            Some(Obj::Dst { kind, obj, model, .. }) => {
                let (kind, model) = (*kind, model.clone());
                let obj: &dyn DstObj = &**obj;
                // SAFETY of the borrow: `call` needs &mut self only for counters
                let obj_ptr = obj as *const dyn DstObj;
                let r = self.call(|| unsafe { &*obj_ptr }.clone_dyn());
                (kind, model, r)
            }
            _ => return self.skip(),
        };
        self.probes.hit(&format!("clone_dyn/{}/residue{}", kind.name(), model.len() % 8));
        match res {
            Call::Ok(c) => {
                // "yields an equal tag", taken literally as well: the type's
                // own `==` between source and clone
                if let Some(Obj::Dst { obj, .. }) = self.objs.get(src).and_then(|o| o.as_ref()) {
                    if obj.eq_dyn(&*c) == Some(false) {
                        self.viol("clone-eq", kind.name(), "clone_dyn(x) == x is false".into());
                    }
                }
                let img = self.check_dst_object(kind, &*c, &model, "clone_dyn");
                let n = model.len();
                self.note(&[5, kind as u64], img.as_deref().map(|i| &i[..n.min(i.len())]).unwrap_or(&[]));
                self.put(op.arg(0), Obj::Dst { kind, obj: c, model, snapshot: img });
            }
            Call::OomPanic(_) => self.note(&[6, kind as u64], &[]),
            Call::Panic(msg) => {
                self.viol("clone-panic", kind.name(), format!("clone_dyn panicked: {msg}"));
                self.excused_ops.push(self.cur as u32 + 1);
                self.note(&[7, kind as u64], &[]);
            }
        }
    }

    // -- dropping ------------------------------------------------------------

    /// Drops an object and checks that its allocation is released exactly once
    /// (the allocator flags double frees and layout mismatches by itself).
    fn drop_obj(&mut self, o: Obj, recheck: bool) {
        match o {
            Obj::Dst { kind, obj, model, snapshot } => {
                if recheck {
                    // the object must still be what it was when created
                    // (creation-time defects were reported at creation)
                    if let (Some(snap), Ok(now)) = (&snapshot, obj.image()) {
                        let n = model.len().min(snap.len()).min(now.len());
                        if now.len() != snap.len() || now[..n] != snap[..n] {
                            self.viol("changed-later", kind.name(), "a heap object's bytes changed while other objects were created and dropped".into());
                        }
                    }
                }
                let addr = obj.addr();
                let tracked = simalloc::live_block_at(addr).is_some();
                drop(obj);
                if tracked && simalloc::live_block_at(addr).is_some() {
                    self.viol("not-freed", kind.name(), "dropping the Box did not release its allocation".into());
                }
            }
            Obj::Tag { held, ctor, want } => {
                if recheck {
                    if let Ok(img) = held.image() {
                        let n = want.image.len().min(img.len());
                        let same = (0..n).all(|i| want.dont_care.iter().any(|&(lo, hi)| i >= lo && i < hi) || i < 8 || img[i] == want.image[i]);
                        if !same {
                            self.viol("changed-later", ctor.name(), "a constructed tag's bytes changed while other objects were created and dropped".into());
                        }
                    }
                }
                let addr = held.addr();
                let tracked = simalloc::live_block_at(addr).is_some();
                drop(held);
                if tracked && simalloc::live_block_at(addr).is_some() {
                    self.viol("not-freed", ctor.name(), "dropping the tag did not release its allocation".into());
                }
            }
            Obj::Mbi { b, .. } => drop(b),
            Obj::Hdr { b, .. } => drop(b),
            Obj::BuiltMbi { s, snapshot } => {
                if recheck {
                    if let Ok(i) = image_of(&*s) {
                        if !snapshot.is_empty() && defined_content(&i, 8) != snapshot {
                            self.viol("changed-later", "built", "the built structure's bytes changed after build()".into());
                        }
                    }
                }
                let addr = addr_of(&*s);
                drop(s);
                if simalloc::live_block_at(addr).is_some() {
                    self.viol("not-freed", "built", "dropping the built structure did not release its allocation".into());
                }
            }
            Obj::BuiltHdr { s, snapshot } => {
                if recheck {
                    if let Ok(i) = image_of(&*s) {
                        if !snapshot.is_empty() && defined_content(&i, 16) != snapshot {
                            self.viol("changed-later", "built", "the built header's bytes changed after build()".into());
                        }
                    }
                }
                let addr = addr_of(&*s);
                drop(s);
                if simalloc::live_block_at(addr).is_some() {
                    self.viol("not-freed", "built", "dropping the built header did not release its allocation".into());
                }
            }
        }
    }

    fn op_drop(&mut self, op: &Op) {
        match self.take(op.arg(0)) {
            Some(o) => {
                self.drop_obj(o, true);
                self.note(&[8], &[]);
            }
            None => self.skip(),
        }
    }

    fn skip(&mut self) {
        self.probes.hit("op_skipped");
        self.transcript.push(0);
    }

    // -- C07 -----------------------------------------------------------------

    /// Constructs a tag through its public constructor. `Err(())` = the op was
    /// consumed (skipped, legit panic, or violation already recorded).
    fn construct(&mut self, c: Ctor, op: &Op) -> Result<Built, ()> {
        if !ctor::args_usable(c, op) {
            self.skip();
            return Err(());
        }
        let broken = ctor::violates_precondition(c, op);
        if let Some(p) = simalloc::stack_pattern() {
            ctor::dirty_stack(p);
            if p != 0 {
                self.probes.hit("constructor_over_dirtied_stack");
            }
        }
        let r = self.call(|| {
            let _s = Scope::enter();
            ctor::build(c, op)
        });
        match r {
            Call::Ok(b) => {
                if broken {
                    self.probes.hit("precondition_not_enforced");
                }
                Ok(b)
            }
            Call::OomPanic(_) => {
                self.note(&[12, c as u64], &[]);
                Err(())
            }
            Call::Panic(msg) => {
                self.excused_ops.push(self.cur as u32 + 1);
                if broken {
                    self.probes.hit("precondition_panic");
                    self.note(&[13, c as u64], &[]);
                } else {
                    self.viol("ctor-panic", c.name(), format!("constructor panicked for arguments within its contract: {msg}"));
                    self.note(&[14, c as u64], &[]);
                }
                Err(())
            }
        }
    }

    fn op_construct(&mut self, op: &Op) {
        let Some(c) = Ctor::from_u64(op.arg(1)) else { return self.skip() };
        let Ok(built) = self.construct(c, op) else { return };
        if ctor::violates_precondition(c, op) {
            // nothing is promised about the value; just let it go
            let _ = catch_unwind(AssertUnwindSafe(move || drop(built)));
            self.note(&[15, c as u64], &[]);
            return;
        }
        let before = simalloc::counters().failed_allocs;
        let checked = catch_unwind(AssertUnwindSafe(|| built.check(c, op)));
        simalloc::deactivate();
        let checked = match checked {
            Ok(ch) => ch,
            Err(p) => {
                // Box::new in a placement can only fail by abort; a panic here
                // comes from an accessor
                let msg = panic_text(p);
                if simalloc::counters().failed_allocs > before {
                    self.note(&[16, c as u64], &[]);
                } else {
                    self.viol("accessor-panic", c.name(), format!("an accessor panicked on a freshly constructed tag: {msg}"));
                    self.note(&[17, c as u64], &[]);
                }
                return;
            }
        };
        self.model_comparisons += 1;
        let sp = ctor::spec(c, op);
        self.probes.hit(&format!("construct/{}/residue{}", c.name(), sp.image.len() % 8));
        if checked.minaligned_placement {
            self.probes.hit("byvalue_tag_at_minaligned_address");
        }
        for f in checked.findings {
            self.viol(f.clause, c.name(), f.detail);
        }
        self.note(&[18, c as u64], &checked.observed);
        if let Some(held) = checked.held {
            self.put(op.arg(0), Obj::Tag { held, ctor: c, want: sp });
        }
    }

    // -- C06 -----------------------------------------------------------------

    fn op_mbi_new(&mut self, op: &Op) {
        // both ways of obtaining an empty builder
        let b = if op.arg(1) % 2 == 1 {
            self.probes.hit("builder_from_default");
            mb::Builder::default()
        } else {
            mb::Builder::new()
        };
        self.put(op.arg(0), Obj::Mbi { b: Some(b), model: BuilderModel::default() });
        self.note(&[20], &[]);
    }

    fn op_mbi_set(&mut self, op: &Op) {
        let Some(c) = Ctor::from_u64(op.arg(1)) else { return self.skip() };
        let Some((slot, repeatable)) = ctor::mbi_slot(c) else { return self.skip() };
        let bi = op.arg(0) as usize;
        if !matches!(self.objs.get(bi), Some(Some(Obj::Mbi { b: Some(_), .. }))) {
            return self.skip();
        }
        let broken = ctor::violates_precondition(c, op);
        let built = match self.construct(c, op) {
            Ok(b) => b,
            Err(()) => return,
        };
        let image = match built.supplied_image() {
            Ok(i) => i,
            Err(msg) => {
                // the tag itself is unusable (a C07 matter): do not feed it
                self.probes.hit("supplied_tag_unreadable");
                let _ = msg;
                drop(built);
                return self.skip();
            }
        };
        let Some(Some(Obj::Mbi { b, .. })) = self.objs.get_mut(bi) else { unreachable!() };
        let builder = b.take().unwrap();
        let r = self.call(|| {
            let _s = Scope::enter();
            built.supply_mbi(builder)
        });
        match r {
            Call::Ok(nb) => {
                let Some(Some(Obj::Mbi { b, model })) = self.objs.get_mut(bi) else { unreachable!() };
                *b = Some(nb);
                if !repeatable && model.slots.get(slot).map_or(false, |s| !s.1.is_empty()) {
                    self.probes.hit(&format!("override/{slot}"));
                }
                model.supply(slot, repeatable, image.clone());
                if repeatable && model.slots[slot].1.len() >= 3 {
                    self.probes.hit("repeatable_slot_with_3_entries");
                }
                self.probes.hit(&format!("mbi_set/{slot}/residue{}", image.len() % 8));
                self.note(&[21, c as u64], &image);
            }
            Call::OomPanic(_) => {
                // the builder was consumed by the unwinding setter
                self.note(&[22, c as u64], &[]);
            }
            Call::Panic(msg) => {
                if broken {
                    self.probes.hit("precondition_panic");
                    self.note(&[23, c as u64], &[]);
                } else {
                    self.viol("setter-panic", slot, format!("builder setter panicked: {msg}"));
                    self.note(&[24, c as u64], &[]);
                }
            }
        }
    }

    fn op_mbi_build(&mut self, op: &Op) {
        let bi = op.arg(1) as usize;
        let (builder, model) = match self.objs.get_mut(bi) {
            Some(slot @ Some(Obj::Mbi { b: Some(_), .. })) => match slot.take() {
                Some(Obj::Mbi { b, model }) => (b.unwrap(), model),
                _ => unreachable!(),
            },
            _ => return self.skip(),
        };
        let before = simalloc::counters();
        let r = self.call(|| {
            let _s = Scope::enter();
            builder.build()
        });
        let after = simalloc::counters();
        if after.reallocs_moved > before.reallocs_moved {
            self.probes.hit("realloc_moved_during_build");
        }
        let s = match r {
            Call::Ok(s) => s,
            Call::OomPanic(_) => return self.note(&[31], &[]),
            Call::Panic(msg) => {
                self.viol("build-panic", "mbi", format!("build() panicked: {msg}"));
                return self.note(&[32], &[]);
            }
        };
        self.model_comparisons += 1;
        let addr = addr_of(&*s);
        if addr % 8 != 0 {
            self.viol("align", "mbi", format!("built structure at an address ≡ {} (mod 8)", addr % 8));
        }
        if simalloc::offset_of_addr(addr).map_or(false, |o| o % 16 == 8) {
            self.probes.hit("built_at_8_mod_16");
        }
        let img = match image_of(&*s) {
            Ok(i) => i,
            Err(msg) => {
                self.viol("as-bytes-panic", "mbi", format!("as_bytes() of the built structure panicked: {msg}"));
                self.put(op.arg(0), Obj::BuiltMbi { s, snapshot: vec![] });
                return self.note(&[33], &[]);
            }
        };
        let sov = std::mem::size_of_val(&*s);
        if view_of(&*s).ok() != Some((addr, sov)) {
            self.viol("byte-view", "mbi", "as_bytes() of the built structure is not the whole object".into());
        }
        let total = if img.len() >= 8 { u32::from_le_bytes(img[0..4].try_into().unwrap()) as usize } else { 0 };
        if sov != img.len() || total != img.len() || img.len() % 8 != 0 || img.len() < 16 {
            self.viol("length", "mbi", format!("size_of_val {sov}, as_bytes().len() {}, total_size field {total}", img.len()));
        }
        // load + walk with the library
        let ptr = addr as *const mb::BootInformationHeader;
        let walked: Result<Result<Vec<Vec<u8>>, String>, String> = catch_unwind(AssertUnwindSafe(|| {
            let info = unsafe { mb::BootInformation::load(ptr) }.map_err(|e| format!("{e:?}"))?;
            let mut v = Vec::new();
            for t in info.tags() {
                let b = t.as_bytes();
                let bytes: &[u8] = &b;
                let size = u32::from_le_bytes(bytes[4..8].try_into().unwrap()) as usize;
                v.push(bytes[..size.min(bytes.len())].to_vec());
            }
            Ok(v)
        }))
        .map_err(panic_text);
        let walked = match walked {
            Err(msg) => {
                self.viol("walk-panic", "mbi", format!("load()/tags() panicked on the built structure: {msg}"));
                None
            }
            Ok(Err(e)) => {
                self.viol("load", "mbi", format!("BootInformation::load rejected the built structure: {e}"));
                None
            }
            Ok(Ok(v)) => Some(v),
        };
        // independent walk of the raw bytes (specification rules only)
        let raw = raw_walk(&img, 8);
        if let (Some(w), Ok(r)) = (&walked, &raw) {
            if w != r {
                self.viol("walk-mismatch", "mbi", "the library's tag walk differs from a plain specification walk of the same bytes".into());
            }
        }
        let tags = walked.or(raw.ok());
        if let Some(mut tags) = tags {
            // (e) terminator
            let end: [u8; 8] = [0, 0, 0, 0, 8, 0, 0, 0];
            if img.len() < 16 || img[img.len() - 8..] != end {
                self.viol("end-tag", "final-bytes", "the final 8 bytes are not an end tag (type 0, size 8)".into());
            }
            match tags.last() {
                Some(t) if t[..] == end => {
                    tags.pop();
                }
                _ => self.viol("end-tag", "walk-last", "the tag walk does not finish with an end tag".into()),
            }
            if tags.iter().any(|t| t.len() >= 4 && t[0..4] == [0, 0, 0, 0]) {
                self.viol("end-tag", "extra", "an end tag appears before the end of the walk".into());
            }
            self.compare_with_model(&model, &tags, &["add_module", "add_smbios", "add_custom_tag"]);
            let mut d = Digest::default();
            let mut sorted = tags.clone();
            sorted.sort();
            for t in &sorted {
                d.bytes(t);
            }
            self.note(&[34, d.finish()], &[]);
        } else {
            self.note(&[35], &[]);
        }
        self.probes.hit(&format!("mbi_build/slots{}", model.slots.len()));
        if model.calls > 255 {
            self.probes.hit("mbi_history_with_over_255_tags");
        }
        self.probes.hit("mbi_build");
        let snapshot = defined_content(&img, 8);
        self.put(op.arg(0), Obj::BuiltMbi { s, snapshot });
    }

    /// Multiset + per-kind order comparison between the model and a walk.
    fn compare_with_model(&mut self, model: &BuilderModel, walked: &[Vec<u8>], _repeatables: &[&str]) {
        let expected = model.expected();
        let mut used = vec![false; walked.len()];
        let mut matched_at: Vec<Option<usize>> = vec![None; expected.len()];
        for (ei, (_, _, img, _)) in expected.iter().enumerate() {
            if let Some(wi) = (0..walked.len()).find(|&wi| !used[wi] && &walked[wi] == img) {
                used[wi] = true;
                matched_at[ei] = Some(wi);
            }
        }
        for (ei, (slot, _rep, img, earlier)) in expected.iter().enumerate() {
            if matched_at[ei].is_some() {
                continue;
            }
            // same type number present but different bytes?
            let same_typ = (0..walked.len()).find(|&wi| !used[wi] && walked[wi].len() >= 4 && walked[wi][0..4] == img[0..4]);
            match same_typ {
                Some(wi) => {
                    used[wi] = true;
                    if earlier.iter().any(|e| e == &walked[wi]) {
                        self.viol("last-wins", slot, format!("an overridden value came back instead of the last one supplied: got {} want {}", hex(&walked[wi]), hex(img)));
                    } else {
                        self.viol("altered", slot, format!("tag differs from the one supplied: got {} want {}", hex(&walked[wi]), hex(img)));
                    }
                }
                None => self.viol("dropped", slot, format!("supplied tag is missing from the built structure: {}", hex(img))),
            }
        }
        for wi in 0..walked.len() {
            if used[wi] {
                continue;
            }
            if let Some((slot, _, _, _)) = expected.iter().find(|(_, _, img, _)| img == &walked[wi]) {
                self.viol("duplicated", slot, format!("tag appears more often than it was supplied: {}", hex(&walked[wi])));
            } else if let Some((slot, _, _, _)) =
                expected.iter().find(|(_, _, _, earlier)| earlier.iter().any(|e| e == &walked[wi]))
            {
                self.viol("last-wins", slot, format!("an overridden value is still present: {}", hex(&walked[wi])));
            } else {
                let typ = if walked[wi].len() >= 4 { u32::from_le_bytes(walked[wi][0..4].try_into().unwrap()) } else { 0 };
                self.viol("unexpected", &format!("typ{typ}"), format!("a tag that was never supplied is present: {}", hex(&walked[wi])));
            }
        }
        // order within each repeatable slot
        let mut last: BTreeMap<&str, usize> = BTreeMap::new();
        for (ei, (slot, rep, _, _)) in expected.iter().enumerate() {
            if !*rep {
                continue;
            }
            if let Some(wi) = matched_at[ei] {
                if let Some(&prev) = last.get(slot) {
                    if wi < prev {
                        self.viol("order", slot, "repeatable tags come back in a different order than they were supplied".into());
                    }
                }
                last.insert(slot, wi);
            }
        }
    }

    // -- C12 -----------------------------------------------------------------

    fn op_hdr_new(&mut self, op: &Op) {
        let arch = if op.arg(1) % 2 == 0 { mh::HeaderTagISA::I386 } else { mh::HeaderTagISA::MIPS32 };
        let b = mh::Builder::new(arch);
        self.put(op.arg(0), Obj::Hdr { b: Some(b), model: BuilderModel::default(), arch: arch as u32 });
        self.note(&[40, arch as u64], &[]);
    }

    fn op_hdr_set(&mut self, op: &Op) {
        let Some(c) = Ctor::from_u64(op.arg(1)) else { return self.skip() };
        let Some(slot) = ctor::hdr_slot(c) else { return self.skip() };
        let bi = op.arg(0) as usize;
        if !matches!(self.objs.get(bi), Some(Some(Obj::Hdr { b: Some(_), .. }))) {
            return self.skip();
        }
        let built = match self.construct(c, op) {
            Ok(b) => b,
            Err(()) => return,
        };
        let image = match built.supplied_image() {
            Ok(i) => i,
            Err(_) => {
                self.probes.hit("supplied_tag_unreadable");
                drop(built);
                return self.skip();
            }
        };
        let Some(Some(Obj::Hdr { b, .. })) = self.objs.get_mut(bi) else { unreachable!() };
        let builder = b.take().unwrap();
        let r = self.call(|| {
            let _s = Scope::enter();
            built.supply_hdr(builder)
        });
        match r {
            Call::Ok(nb) => {
                let Some(Some(Obj::Hdr { b, model, .. })) = self.objs.get_mut(bi) else { unreachable!() };
                *b = Some(nb);
                if model.slots.get(slot).map_or(false, |s| !s.1.is_empty()) {
                    self.probes.hit(&format!("override/{slot}"));
                }
                model.supply(slot, false, image.clone());
                self.probes.hit(&format!("hdr_set/{slot}/residue{}", image.len() % 8));
                self.note(&[41, c as u64], &image);
            }
            Call::OomPanic(_) => self.note(&[42, c as u64], &[]),
            Call::Panic(msg) => {
                self.viol("setter-panic", slot, format!("builder setter panicked: {msg}"));
                self.note(&[44, c as u64], &[]);
            }
        }
    }

    fn op_hdr_build(&mut self, op: &Op) {
        let bi = op.arg(1) as usize;
        let (builder, model, arch) = match self.objs.get_mut(bi) {
            Some(slot @ Some(Obj::Hdr { b: Some(_), .. })) => match slot.take() {
                Some(Obj::Hdr { b, model, arch }) => (b.unwrap(), model, arch),
                _ => unreachable!(),
            },
            _ => return self.skip(),
        };
        let before = simalloc::counters();
        let r = self.call(|| {
            let _s = Scope::enter();
            builder.build()
        });
        if simalloc::counters().reallocs_moved > before.reallocs_moved {
            self.probes.hit("realloc_moved_during_build");
        }
        let s = match r {
            Call::Ok(s) => s,
            Call::OomPanic(_) => return self.note(&[51], &[]),
            Call::Panic(msg) => {
                self.viol("build-panic", "header", format!("build() panicked: {msg}"));
                return self.note(&[52], &[]);
            }
        };
        self.model_comparisons += 1;
        let addr = addr_of(&*s);
        if addr % 8 != 0 {
            self.viol("align", "header", format!("built header at an address ≡ {} (mod 8)", addr % 8));
        }
        if simalloc::offset_of_addr(addr).map_or(false, |o| o % 16 == 8) {
            self.probes.hit("built_at_8_mod_16");
        }
        let img = match image_of(&*s) {
            Ok(i) => i,
            Err(msg) => {
                self.viol("as-bytes-panic", "header", format!("as_bytes() of the built header panicked: {msg}"));
                self.put(op.arg(0), Obj::BuiltHdr { s, snapshot: vec![] });
                return self.note(&[53], &[]);
            }
        };
        let sov = std::mem::size_of_val(&*s);
        if view_of(&*s).ok() != Some((addr, sov)) {
            self.viol("byte-view", "header", "as_bytes() of the built header is not the whole object".into());
        }
        let w = |i: usize| u32::from_le_bytes(img[i..i + 4].try_into().unwrap());
        if img.len() < 16 {
            self.viol("length", "header", format!("built header has only {} bytes", img.len()));
            self.put(op.arg(0), Obj::BuiltHdr { s, snapshot: vec![] });
            return self.note(&[54], &[]);
        }
        if w(0) != 0xE852_50D6 {
            self.viol("magic", "header", format!("magic field is {:#x}", w(0)));
        }
        if w(4) != arch {
            self.viol("arch", "header", format!("architecture field is {}, chosen {}", w(4), arch));
        }
        if w(8) as usize != img.len() || sov != img.len() || img.len() % 8 != 0 {
            self.viol("length", "header", format!("length field {}, as_bytes().len() {}, size_of_val {sov}", w(8), img.len()));
        }
        if w(0).wrapping_add(w(4)).wrapping_add(w(8)).wrapping_add(w(12)) != 0 {
            self.viol("checksum", "header", format!("magic+arch+length+checksum = {:#x} (mod 2^32)", w(0).wrapping_add(w(4)).wrapping_add(w(8)).wrapping_add(w(12))));
        }
        let ptr = addr as *const mh::Multiboot2BasicHeader;
        let walked: Result<Result<Vec<Vec<u8>>, String>, String> = catch_unwind(AssertUnwindSafe(|| {
            let hdr = unsafe { mh::Multiboot2Header::load(ptr) }.map_err(|e| format!("{e:?}"))?;
            let mut v = Vec::new();
            for t in hdr.iter() {
                let b = t.as_bytes();
                let bytes: &[u8] = &b;
                let size = u32::from_le_bytes(bytes[4..8].try_into().unwrap()) as usize;
                v.push(bytes[..size.min(bytes.len())].to_vec());
            }
            Ok(v)
        }))
        .map_err(panic_text);
        let walked = match walked {
            Err(msg) => {
                self.viol("walk-panic", "header", format!("load()/iter() panicked on the built header: {msg}"));
                None
            }
            Ok(Err(e)) => {
                self.viol("load", "header", format!("Multiboot2Header::load rejected the built header: {e}"));
                None
            }
            Ok(Ok(v)) => Some(v),
        };
        let raw = raw_walk(&img, 16);
        if let (Some(wk), Ok(r)) = (&walked, &raw) {
            if wk != r {
                self.viol("walk-mismatch", "header", "the library's tag walk differs from a plain specification walk of the same bytes".into());
            }
        }
        if let Some(mut tags) = walked.or(raw.ok()) {
            let end: [u8; 8] = [0, 0, 0, 0, 8, 0, 0, 0];
            match tags.last() {
                Some(t) if t[..] == end => {
                    tags.pop();
                }
                _ => self.viol(
                    "terminator",
                    "missing",
                    format!("the built header does not end with an end tag (type 0, flags 0, size 8); last 8 bytes: {}", hex(&img[img.len() - 8..])),
                ),
            }
            if tags.iter().any(|t| t.len() >= 2 && t[0..2] == [0, 0]) {
                self.viol("terminator", "extra", "an end tag appears before the end of the tag list".into());
            }
            self.compare_with_model(&model, &tags, &[]);
            let mut d = Digest::default();
            let mut sorted = tags.clone();
            sorted.sort();
            for t in &sorted {
                d.bytes(t);
            }
            self.note(&[55, d.finish(), arch as u64], &[]);
        } else {
            self.note(&[56], &[]);
        }
        self.probes.hit(&format!("hdr_build/slots{}", model.slots.len()));
        self.probes.hit("hdr_build");
        let snapshot = defined_content(&img, 16);
        self.put(op.arg(0), Obj::BuiltHdr { s, snapshot });
    }

    // -- driver ----------------------------------------------------------------

    fn step(&mut self, op: &Op) {
        self.shape.u64(op.kind as u64 + 1);
        match op.kind {
            OpKind::NewBoxed => self.op_new_boxed(op),
            OpKind::CloneDyn => self.op_clone_dyn(op),
            OpKind::CloneParsed => self.op_clone_parsed(op),
            OpKind::DropObj => self.op_drop(op),
            OpKind::Construct => self.op_construct(op),
            OpKind::MbiNew => self.op_mbi_new(op),
            OpKind::MbiSet => self.op_mbi_set(op),
            OpKind::MbiBuild => self.op_mbi_build(op),
            OpKind::HdrNew => self.op_hdr_new(op),
            OpKind::HdrSet => self.op_hdr_set(op),
            OpKind::HdrBuild => self.op_hdr_build(op),
        }
    }

    fn collect_alloc_flags(&mut self) {
        for f in simalloc::take_flags() {
            if f.kind == simalloc::FlagKind::HarnessLimit {
                self.harness_error = Some(format!("allocator harness limit hit (code {})", f.off));
                continue;
            }
            self.viol(f.clause(), "allocator", f.describe());
        }
    }
}

/// The bytes of a built structure that the specification defines: the fixed
/// header and every tag up to its size — inter-tag padding excluded (it is
/// allocator garbage by design, and uninitialised under Miri).
fn defined_content(img: &[u8], start: usize) -> Vec<u8> {
    let mut v = Vec::new();
    if img.len() < start {
        return v;
    }
    v.extend_from_slice(&img[..start]);
    if let Ok(tags) = raw_walk(img, start) {
        for t in tags {
            v.extend_from_slice(&t);
        }
    }
    v
}

/// Specification walk: tags start after `start` bytes, each (…, u32 size at
/// +4), next at the following multiple of 8, until the buffer is used up.
fn raw_walk(img: &[u8], start: usize) -> Result<Vec<Vec<u8>>, String> {
    let mut v = Vec::new();
    let mut off = start;
    while off < img.len() {
        if off + 8 > img.len() {
            return Err(format!("tag header at {off} crosses the end"));
        }
        let size = u32::from_le_bytes(img[off + 4..off + 8].try_into().unwrap()) as usize;
        if size < 8 || off + size > img.len() {
            return Err(format!("tag at {off} declares size {size}"));
        }
        v.push(img[off..off + size].to_vec());
        off += round_up8(size);
    }
    Ok(v)
}

/// `new_boxed` with content its kind's `dst_len` rejects panics *after* the
/// allocation and leaks the block (DESIGN §3.6 note 4).
pub fn leaks_by_contract(op: &Op) -> bool {
    let total: usize = if op.arg(5) % 5 == 3 && op.arg(1) != DstKind::Framebuffer as u64 {
        op.b.first().map_or(0, |s| s.len()) * op.b.len() // the same slice repeated
    } else {
        op.b.iter().map(|s| s.len()).sum()
    };
    op.kind == OpKind::NewBoxed && DstKind::from_u64(op.arg(1)).map_or(false, |k| !k.content_ok(total))
}

/// Executes a trace under its allocator script. One call = one simulated run.
pub fn execute(prop: Prop, trace: &Trace) -> RunOutput {
    simalloc::begin_run(trace.cfg);
    let mut it = Interp::new(prop);
    for (i, op) in trace.ops.iter().enumerate() {
        it.cur = i;
        simalloc::set_op(i as u32 + 1);
        it.step(op);
        it.collect_alloc_flags();
    }
    // end of run: everything still alive is re-verified, then dropped (in slot
    // order), then the heap must be empty
    it.cur = trace.ops.len();
    simalloc::set_op(trace.ops.len() as u32 + 1);
    simalloc::sweep();
    it.collect_alloc_flags();
    let objs = std::mem::take(&mut it.objs);
    for o in objs.into_iter().flatten() {
        it.drop_obj(o, true);
    }
    simalloc::sweep();
    it.collect_alloc_flags();
    for b in simalloc::live_blocks() {
        if it.excused_ops.contains(&b.op) {
            continue;
        }
        it.viol("leak", "allocator", format!("block (offset {}, size {}, align {}) allocated in op {} is still live after everything was dropped", b.off, b.size, b.align, b.op));
    }
    // digest: transcript + allocator events (offsets, not addresses)
    let mut d = Digest::default();
    for t in &it.transcript {
        d.u64(*t);
    }
    for e in simalloc::events() {
        d.u64(e.kind as u64);
        d.u64(e.off as u64);
        d.u64(e.size as u64);
        d.u64(e.align as u64);
        d.u64(e.op as u64);
        it.shape.u64((e.kind as u64) << 8 | (64 - (e.size as u64).leading_zeros() as u64) << 1 | e.recycled as u64);
    }
    for v in &it.violations {
        d.str(&v.sig);
    }
    let counters = simalloc::counters();
    RunOutput {
        violations: it.violations,
        transcript: it.transcript,
        digest: d.finish(),
        shape: it.shape.finish(),
        probes: it.probes,
        harness_error: it.harness_error,
        counters,
        model_comparisons: it.model_comparisons,
        oom_fired: counters.failed_allocs > 0,
        alloc_requests: simalloc::alloc_index(),
    }
}

#[allow(dead_code)]
fn _unused(_: ScopeOff) {}
