//! Minimal JSON writer (evidence files). No parsing is needed anywhere.

#[derive(Clone, Debug)]
pub enum J {
    Null,
    Bool(bool),
    Int(i64),
    Num(f64),
    Str(String),
    Arr(Vec<J>),
    Obj(Vec<(String, J)>),
}

impl J {
    pub fn s(v: impl Into<String>) -> J {
        J::Str(v.into())
    }
    pub fn u(v: u64) -> J {
        J::Int(v as i64)
    }
    pub fn obj(items: Vec<(&str, J)>) -> J {
        J::Obj(items.into_iter().map(|(k, v)| (k.to_string(), v)).collect())
    }

    pub fn write(&self, out: &mut String, indent: usize) {
        let pad = |out: &mut String, n: usize| {
            for _ in 0..n {
                out.push(' ');
            }
        };
        match self {
            J::Null => out.push_str("null"),
            J::Bool(b) => out.push_str(if *b { "true" } else { "false" }),
            J::Int(i) => out.push_str(&i.to_string()),
            J::Num(f) => {
                if f.is_finite() {
                    out.push_str(&format!("{f:.3}"));
                } else {
                    out.push_str("0");
                }
            }
            J::Str(s) => {
                out.push('"');
                for c in s.chars() {
                    match c {
                        '"' => out.push_str("\\\""),
                        '\\' => out.push_str("\\\\"),
                        '\n' => out.push_str("\\n"),
                        '\r' => out.push_str("\\r"),
                        '\t' => out.push_str("\\t"),
                        c if (c as u32) < 0x20 => out.push_str(&format!("\\u{:04x}", c as u32)),
                        c => out.push(c),
                    }
                }
                out.push('"');
            }
            J::Arr(a) => {
                if a.is_empty() {
                    out.push_str("[]");
                    return;
                }
                out.push_str("[\n");
                for (i, v) in a.iter().enumerate() {
                    pad(out, indent + 1);
                    v.write(out, indent + 1);
                    if i + 1 < a.len() {
                        out.push(',');
                    }
                    out.push('\n');
                }
                pad(out, indent);
                out.push(']');
            }
            J::Obj(o) => {
                if o.is_empty() {
                    out.push_str("{}");
                    return;
                }
                out.push_str("{\n");
                for (i, (k, v)) in o.iter().enumerate() {
                    pad(out, indent + 1);
                    J::Str(k.clone()).write(out, 0);
                    out.push_str(": ");
                    v.write(out, indent + 1);
                    if i + 1 < o.len() {
                        out.push(',');
                    }
                    out.push('\n');
                }
                pad(out, indent);
                out.push('}');
            }
        }
    }

    pub fn to_string_pretty(&self) -> String {
        let mut s = String::new();
        self.write(&mut s, 0);
        s.push('\n');
        s
    }
}
