//! allocsim — deterministic simulation of rust-osdev/multiboot2's
//! construction side against a simulated global allocator.
//!
//!   sim check <C06|C07|C12|C16> <quick|thorough>     (VERIF_SEED, VERIF_WORKERS, VERIF_SCALE honoured)
//!   sim replay <file>
//!   sim show <property> <directed|seeded|oom> <idx> [k]     print a trace as a replay file
//!   sim worker …                                      (internal)

#![allow(dead_code)]

mod ctor;
mod eval;
mod gen;
mod interp;
mod json;
mod ops;
mod orch;
mod proc;
mod rng;
mod simalloc;

use interp::Prop;

#[cfg(not(miri))]
#[global_allocator]
static GLOBAL: simalloc::SimAlloc = simalloc::SimAlloc;

fn env_u64(name: &str) -> Option<u64> {
    std::env::var(name).ok().and_then(|v| v.trim().parse().ok())
}

fn range(s: &str) -> (u64, u64) {
    let (a, b) = s.split_once(':').expect("range a:b");
    (a.parse().expect("range start"), b.parse().expect("range end"))
}

fn usage() -> i32 {
    eprintln!("usage: sim check <C06|C07|C12|C16> <quick|thorough> | sim replay <file> | sim show <prop> <mode> <idx> [k]");
    2
}

fn main() {
    // Library panics are outcomes the interpreter classifies; the hook only
    // makes sure nothing the panic machinery allocates reaches the simulated
    // heap, and keeps stderr quiet.
    std::panic::set_hook(Box::new(|_| {
        simalloc::deactivate();
    }));
    // std's allocation-error path prints a backtrace when this is set; the
    // symbolisation would run inside the simulated heap
    std::env::set_var("RUST_BACKTRACE", "0");
    let args: Vec<String> = std::env::args().collect();
    let code = match args.get(1).map(|s| s.as_str()) {
        Some("check") if args.len() >= 4 => {
            let Some(prop) = Prop::from_id(&args[2]) else { std::process::exit(usage()) };
            let tier = std::env::var("VERIF_TIER").ok().filter(|t| t == "quick" || t == "thorough").unwrap_or_else(|| args[3].clone());
            let verif_dir = std::env::var("VERIF_DIR").unwrap_or_else(|_| "/verif".to_string());
            let cores = std::thread::available_parallelism().map(|n| n.get() as u64).unwrap_or(4);
            orch::cmd_check(orch::CheckArgs {
                prop,
                thorough: tier == "thorough",
                base: env_u64("VERIF_SEED").unwrap_or(orch::DEFAULT_SEED),
                workers: env_u64("VERIF_WORKERS").unwrap_or(cores.min(16)).max(1),
                verif_dir,
                scale: std::env::var("VERIF_SCALE").ok().and_then(|v| v.parse().ok()).unwrap_or(1.0),
                profile_tag: std::env::var("VERIF_PROFILE_TAG").unwrap_or_else(|_| "checks-on".to_string()),
                write_evidence: std::env::var("VERIF_NO_EVIDENCE").is_err(),
            })
        }
        Some("worker") if args.len() >= 10 => {
            simalloc::init();
            let Some(prop) = Prop::from_id(&args[2]) else { std::process::exit(usage()) };
            orch::cmd_worker(orch::WorkerArgs {
                prop,
                base: args[3].parse().expect("seed"),
                directed: range(&args[4]),
                seeded: range(&args[5]),
                oom: range(&args[6]),
                subsets: range(&args[7]),
                det_sample: args[8].parse().expect("det sample"),
                out: args[9].clone(),
            })
        }
        Some("replay") if args.len() >= 3 => orch::cmd_replay(&args[2]),
        // diagnosis: execute a replay file in this process and list the allocator events
        Some("events") if args.len() >= 3 => {
            simalloc::init();
            let text = std::fs::read_to_string(&args[2]).expect("read");
            let rep = ops::Replay::from_text(&text).expect("parse");
            let prop = Prop::from_id(&rep.trace.property).expect("property");
            let out = interp::execute(prop, &rep.trace);
            for e in simalloc::events() {
                println!("op {:3} {:?} off={} size={} align={} recycled={}", e.op, e.kind, e.off, e.size, e.align, e.recycled);
            }
            for v in &out.violations {
                println!("violation {} op {}: {}", v.sig, v.op, v.detail);
            }
            0
        }
        // Miri tier (run under `cargo +nightly miri run`): in-process, no fork,
        // SimAlloc compiled out — Miri's abstract machine is the allocator model.
        Some("dump-traces") if args.len() >= 5 => {
            let Some(prop) = Prop::from_id(&args[2]) else { std::process::exit(usage()) };
            let base = args.get(5).and_then(|v| v.parse().ok()).unwrap_or(orch::DEFAULT_SEED);
            orch::cmd_dump_traces(prop, base, args[3].parse().expect("directed stride"), args[4].parse().expect("seeded count"))
        }
        Some("miri-file") if args.len() >= 3 => {
            let code = orch::cmd_miri_file(&args[2]);
            if code == 0 {
                return; // let Miri run its end-of-program leak check
            }
            code
        }
        Some("miri-replay") if args.len() >= 3 => {
            let code = orch::cmd_miri_replay(&args[2]);
            if code == 0 {
                return;
            }
            code
        }
        Some("show") if args.len() >= 5 => {
            let Some(prop) = Prop::from_id(&args[2]) else { std::process::exit(usage()) };
            let mode = match args[3].as_str() {
                "directed" => orch::Mode::Directed,
                "seeded" => orch::Mode::Seeded,
                "oom" => orch::Mode::Oom,
                "subsets" => orch::Mode::Subsets,
                _ => std::process::exit(usage()),
            };
            let idx: u64 = args[4].parse().expect("idx");
            let k: u32 = args.get(5).and_then(|v| v.parse().ok()).unwrap_or(0);
            let base = env_u64("VERIF_SEED").unwrap_or(orch::DEFAULT_SEED);
            match orch::trace_for(prop, base, mode, idx, k) {
                Some(t) => {
                    let rep = ops::Replay { trace: t, seed: base, repo_rev: "n/a".into(), expect_sig: "none".into(), expect_digest: 0, note: "sim show".into() };
                    print!("{}", rep.to_text());
                    0
                }
                None => 2,
            }
        }
        _ => usage(),
    };
    std::process::exit(code);
}
