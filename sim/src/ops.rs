//! Operation traces: the workload half of a simulated run, and the replay
//! file format.
//!
//! An `Op` is deliberately generic — a kind, a list of integers and a list of
//! byte strings — so that printing, parsing and shrinking are written once.
//! What the integers mean is fixed per kind (see `interp.rs`/`ctor.rs`).
//! Object references are explicit slot numbers chosen by the generator, so an
//! op can be deleted during minimisation without renumbering anything: an op
//! that refers to an empty slot is skipped and counted, never an error.

use crate::simalloc::Config;

#[derive(Clone, Copy, Debug, PartialEq, Eq, Hash, PartialOrd, Ord)]
pub enum OpKind {
    /// a=[dst, dstkind, hdr_typ, hdr_aux, garbage_size] b=slices → new_boxed::<T>
    NewBoxed,
    /// a=[dst, src] → clone_dyn
    CloneDyn,
    /// a=[dst, hkind(0 MBI header,1 MB2 header,2 tag,3 header tag), f0, f1] b=[content]
    /// → DynSizedStructure::<H>::ref_from_slice(raw bytes) then clone_dyn
    CloneParsed,
    /// a=[obj]
    DropObj,
    /// a=[dst, ctor, scalars..] b=[byte args..] → a public constructor, placed and checked
    Construct,
    /// a=[dst]
    MbiNew,
    /// a=[builder, ctor, scalars..] b=[byte args..] → construct + builder setter
    MbiSet,
    /// a=[dst, builder] → build + load + walk
    MbiBuild,
    /// a=[dst, arch]
    HdrNew,
    /// a=[builder, ctor, scalars..] b=[..]
    HdrSet,
    /// a=[dst, builder]
    HdrBuild,
}

impl OpKind {
    pub const ALL: [OpKind; 11] = [
        OpKind::NewBoxed,
        OpKind::CloneDyn,
        OpKind::CloneParsed,
        OpKind::DropObj,
        OpKind::Construct,
        OpKind::MbiNew,
        OpKind::MbiSet,
        OpKind::MbiBuild,
        OpKind::HdrNew,
        OpKind::HdrSet,
        OpKind::HdrBuild,
    ];
    pub fn name(self) -> &'static str {
        match self {
            OpKind::NewBoxed => "NewBoxed",
            OpKind::CloneDyn => "CloneDyn",
            OpKind::CloneParsed => "CloneParsed",
            OpKind::DropObj => "DropObj",
            OpKind::Construct => "Construct",
            OpKind::MbiNew => "MbiNew",
            OpKind::MbiSet => "MbiSet",
            OpKind::MbiBuild => "MbiBuild",
            OpKind::HdrNew => "HdrNew",
            OpKind::HdrSet => "HdrSet",
            OpKind::HdrBuild => "HdrBuild",
        }
    }
    pub fn from_name(s: &str) -> Option<Self> {
        Self::ALL.iter().copied().find(|k| k.name() == s)
    }
}

#[derive(Clone, Debug, PartialEq, Eq)]
pub struct Op {
    pub kind: OpKind,
    pub a: Vec<u64>,
    pub b: Vec<Vec<u8>>,
}

impl Op {
    pub fn new(kind: OpKind, a: Vec<u64>, b: Vec<Vec<u8>>) -> Self {
        Self { kind, a, b }
    }

    pub fn arg(&self, i: usize) -> u64 {
        self.a.get(i).copied().unwrap_or(0)
    }

    pub fn bytes(&self, i: usize) -> &[u8] {
        self.b.get(i).map(|v| v.as_slice()).unwrap_or(&[])
    }

    pub fn to_text(&self) -> String {
        let mut s = String::new();
        s.push_str("op ");
        s.push_str(self.kind.name());
        s.push_str(" a=");
        for (i, v) in self.a.iter().enumerate() {
            if i > 0 {
                s.push(',');
            }
            s.push_str(&v.to_string());
        }
        s.push_str(" b=");
        for (i, v) in self.b.iter().enumerate() {
            if i > 0 {
                s.push(',');
            }
            s.push('.');
            for byte in v {
                s.push_str(&format!("{byte:02x}"));
            }
        }
        s
    }

    pub fn from_text(line: &str) -> Option<Self> {
        let mut it = line.split_whitespace();
        if it.next()? != "op" {
            return None;
        }
        let kind = OpKind::from_name(it.next()?)?;
        let a_part = it.next()?.strip_prefix("a=")?;
        let b_part = it.next()?.strip_prefix("b=")?;
        let mut a = Vec::new();
        if !a_part.is_empty() {
            for t in a_part.split(',') {
                a.push(t.parse().ok()?);
            }
        }
        let mut b = Vec::new();
        if !b_part.is_empty() {
            for t in b_part.split(',') {
                let h = t.strip_prefix('.')?;
                if h.len() % 2 != 0 {
                    return None;
                }
                let mut v = Vec::with_capacity(h.len() / 2);
                for i in (0..h.len()).step_by(2) {
                    v.push(u8::from_str_radix(&h[i..i + 2], 16).ok()?);
                }
                b.push(v);
            }
        }
        Some(Self { kind, a, b })
    }
}

#[derive(Clone, Debug, PartialEq, Eq)]
pub struct Trace {
    pub property: String,
    pub cfg: Config,
    pub ops: Vec<Op>,
}

/// A replay file: everything needed to re-run one execution exactly, without
/// the generator. `expect_*` are what the recorded run produced.
#[derive(Clone, Debug)]
pub struct Replay {
    pub trace: Trace,
    pub seed: u64,
    pub repo_rev: String,
    pub expect_sig: String,
    pub expect_digest: u64,
    pub note: String,
}

impl Replay {
    pub fn to_text(&self) -> String {
        let mut s = String::new();
        s.push_str("allocsim-replay v1\n");
        s.push_str(&format!("property {}\n", self.trace.property));
        s.push_str(&format!("seed {}\n", self.seed));
        s.push_str(&format!("repo_rev {}\n", self.repo_rev));
        s.push_str(&format!("note {}\n", self.note.replace('\n', " ")));
        s.push_str(&format!("alloc {}\n", self.trace.cfg.to_text()));
        s.push_str(&format!("expect_signature {}\n", self.expect_sig));
        s.push_str(&format!("expect_digest {:#018x}\n", self.expect_digest));
        for op in &self.trace.ops {
            s.push_str(&op.to_text());
            s.push('\n');
        }
        s
    }

    pub fn from_text(text: &str) -> Result<Self, String> {
        let mut lines = text.lines();
        if lines.next() != Some("allocsim-replay v1") {
            return Err("not an allocsim replay file".into());
        }
        let mut property = String::new();
        let mut seed = 0u64;
        let mut repo_rev = String::new();
        let mut note = String::new();
        let mut cfg = Config::BASELINE;
        let mut expect_sig = String::new();
        let mut expect_digest = 0u64;
        let mut ops = Vec::new();
        for (n, line) in lines.enumerate() {
            let line = line.trim_end();
            if line.is_empty() || line.starts_with('#') {
                continue;
            }
            let (key, rest) = line.split_once(' ').unwrap_or((line, ""));
            match key {
                "property" => property = rest.to_string(),
                "seed" => seed = rest.parse().map_err(|_| format!("line {}: bad seed", n + 2))?,
                "repo_rev" => repo_rev = rest.to_string(),
                "note" => note = rest.to_string(),
                "alloc" => cfg = Config::from_text(rest).ok_or(format!("line {}: bad alloc script", n + 2))?,
                "expect_signature" => expect_sig = rest.to_string(),
                "expect_digest" => {
                    expect_digest = u64::from_str_radix(rest.trim_start_matches("0x"), 16)
                        .map_err(|_| format!("line {}: bad digest", n + 2))?
                }
                "op" => ops.push(Op::from_text(line).ok_or(format!("line {}: bad op", n + 2))?),
                _ => return Err(format!("line {}: unknown key {key}", n + 2)),
            }
        }
        if property.is_empty() {
            return Err("missing property".into());
        }
        Ok(Self { trace: Trace { property, cfg, ops }, seed, repo_rev, expect_sig, expect_digest, note })
    }
}

// ---------------------------------------------------------------------------
// Generic shrinking candidates (used by the minimiser)
// ---------------------------------------------------------------------------

/// Candidate simplifications of a single op's arguments, simplest first.
/// `first_scalar` is the index in `a` from which values are data (before it
/// they are slot/ctor selectors that must not be touched).
pub fn shrink_op(op: &Op, first_scalar: usize) -> Vec<Op> {
    let mut out = Vec::new();
    // fewer byte strings (only meaningful for NewBoxed partitions)
    if op.kind == OpKind::NewBoxed {
        for i in 0..op.b.len() {
            let mut c = op.clone();
            c.b.remove(i);
            out.push(c);
        }
        // merge adjacent slices
        for i in 0..op.b.len().saturating_sub(1) {
            let mut c = op.clone();
            let tail = c.b.remove(i + 1);
            c.b[i].extend_from_slice(&tail);
            out.push(c);
        }
    }
    for i in 0..op.b.len() {
        let v = &op.b[i];
        if !v.is_empty() {
            // empty, halves, drop last byte
            let mut c = op.clone();
            c.b[i] = Vec::new();
            out.push(c);
            if v.len() > 1 {
                let mut c = op.clone();
                c.b[i] = v[..v.len() / 2].to_vec();
                out.push(c);
            }
            let mut c = op.clone();
            c.b[i] = v[..v.len() - 1].to_vec();
            out.push(c);
            if v.iter().any(|&x| x != 0x41) {
                let mut c = op.clone();
                c.b[i] = vec![0x41; v.len()];
                out.push(c);
            }
        }
    }
    for i in first_scalar..op.a.len() {
        let v = op.a[i];
        for cand in [0u64, 1, v / 2, v & 0xff] {
            if cand < v {
                let mut c = op.clone();
                c.a[i] = cand;
                out.push(c);
            }
        }
    }
    out
}

pub fn first_scalar_index(kind: OpKind) -> usize {
    match kind {
        OpKind::NewBoxed => 2,
        OpKind::CloneParsed => 2,
        OpKind::Construct | OpKind::MbiSet | OpKind::HdrSet => 2,
        _ => usize::MAX,
    }
}
