//! Orchestration: batches of evaluations across worker processes, crash
//! attribution, minimisation, replay files, known findings, evidence.

use crate::eval::{self, CounterSum, EvalResult};
use crate::gen;
use crate::interp::{Probes, Prop};
use crate::json::J;
use crate::ops::{self, Replay, Trace};
use crate::proc::{self, Status};
use crate::rng::mix;
use crate::simalloc::{self, Config};
use std::collections::BTreeMap;
use std::io::Write;
use std::time::Instant;

pub const DEFAULT_SEED: u64 = 20261002;
const OOM_SALT: u64 = 0x00F0_0D5A_17;
const CHUNK: u64 = 2048;
const MAX_OOM_POINTS: u32 = 160;
const PERSIST: u32 = 0x8000_0000;

#[derive(Clone, Copy, Debug, PartialEq, Eq, PartialOrd, Ord)]
pub enum Mode {
    Directed,
    Seeded,
    Oom,
    /// C06 only: one trace per subset of the 22 builder slots (idx → mask is a
    /// bijection on 0..2^22, so the thorough tier covers every subset once and
    /// the quick tier a well-spread sample)
    Subsets,
}

impl Mode {
    fn name(self) -> &'static str {
        match self {
            Mode::Directed => "directed",
            Mode::Seeded => "seeded",
            Mode::Oom => "oom",
            Mode::Subsets => "subsets",
        }
    }
    fn from_name(s: &str) -> Option<Self> {
        match s {
            "directed" => Some(Mode::Directed),
            "seeded" => Some(Mode::Seeded),
            "oom" => Some(Mode::Oom),
            "subsets" => Some(Mode::Subsets),
            _ => None,
        }
    }
}

/// The trace of evaluation `(mode, idx[, k])` — a pure function of its
/// arguments and the code.
pub fn trace_for(prop: Prop, base: u64, mode: Mode, idx: u64, k: u32) -> Option<Trace> {
    match mode {
        Mode::Directed => gen::directed(prop).into_iter().nth(idx as usize),
        Mode::Seeded => Some(gen::gen_trace(prop, mix(base, idx))),
        Mode::Oom => {
            // k's top bit: the failure persists from request k on
            let mut t = gen::gen_trace(prop, mix(base ^ OOM_SALT, idx));
            t.cfg.fail_at = k & 0x7fff_ffff;
            t.cfg.fail_persist = k & PERSIST != 0;
            Some(t)
        }
        Mode::Subsets => gen::subset_trace(prop, idx),
    }
}

// ---------------------------------------------------------------------------
// Aggregation
// ---------------------------------------------------------------------------

#[derive(Clone, Debug)]
pub struct VRec {
    pub count: u64,
    pub mode: Mode,
    pub idx: u64,
    pub k: u32,
    pub detail: String,
}

#[derive(Default)]
pub struct Agg {
    pub evals: u64,
    pub executions: u64,
    pub nontrivial: u64,
    pub digests: Vec<u64>,
    pub shapes: Vec<u64>,
    pub viols: BTreeMap<String, VRec>,
    pub herrs: Vec<String>,
    pub probes: Probes,
    pub counters: CounterSum,
    pub det: Vec<(u64, u64)>,
    pub oom_traces: u64,
    pub oom_points: u64,
    pub complete: bool,
}

impl Agg {
    fn record(&mut self, mode: Mode, idx: u64, k: u32, r: &EvalResult, det_sample: u64) {
        self.evals += 1;
        self.executions += r.executions as u64;
        if r.nontrivial {
            self.nontrivial += 1;
            self.digests.push(r.digest);
            self.shapes.push(r.shape);
        }
        if mode == Mode::Seeded && idx < det_sample {
            self.det.push((idx, r.digest));
        }
        for (sig, detail) in &r.viols {
            let better = |old: &VRec| (mode, idx, k) < (old.mode, old.idx, old.k);
            match self.viols.get_mut(sig) {
                Some(v) => {
                    v.count += 1;
                    if better(v) {
                        v.mode = mode;
                        v.idx = idx;
                        v.k = k;
                        v.detail = detail.clone();
                    }
                }
                None => {
                    self.viols.insert(sig.clone(), VRec { count: 1, mode, idx, k, detail: detail.clone() });
                }
            }
        }
        if let Some(h) = &r.herr {
            if self.herrs.len() < 20 {
                self.herrs.push(format!("{} {}:{} {}", mode.name(), idx, k, h));
            }
        }
        self.probes.merge(&r.probes);
        self.counters.merge(&r.counters);
    }

    fn compact(&mut self) {
        self.digests.sort_unstable();
        self.digests.dedup();
        self.shapes.sort_unstable();
        self.shapes.dedup();
    }

    pub fn merge(&mut self, o: Agg) {
        self.evals += o.evals;
        self.executions += o.executions;
        self.nontrivial += o.nontrivial;
        self.digests.extend(o.digests);
        self.shapes.extend(o.shapes);
        for (sig, v) in o.viols {
            match self.viols.get_mut(&sig) {
                Some(mine) => {
                    mine.count += v.count;
                    if (v.mode, v.idx, v.k) < (mine.mode, mine.idx, mine.k) {
                        let c = mine.count;
                        *mine = v;
                        mine.count = c;
                    }
                }
                None => {
                    self.viols.insert(sig, v);
                }
            }
        }
        self.herrs.extend(o.herrs);
        self.probes.merge(&o.probes);
        self.counters.merge(&o.counters);
        self.det.extend(o.det);
        self.oom_traces += o.oom_traces;
        self.oom_points += o.oom_points;
        self.compact();
    }

    fn to_text(&mut self) -> String {
        self.compact();
        let mut s = String::new();
        s.push_str(&format!("N\t{}\t{}\t{}\t{}\t{}\n", self.evals, self.executions, self.nontrivial, self.oom_traces, self.oom_points));
        for (sig, v) in &self.viols {
            s.push_str(&format!(
                "V\t{}\t{}\t{}\t{}\t{}\t{}\n",
                sig.replace('\t', " "),
                v.count,
                v.mode.name(),
                v.idx,
                v.k,
                v.detail.replace(['\t', '\n'], " ")
            ));
        }
        for h in &self.herrs {
            s.push_str(&format!("H\t{}\n", h.replace(['\t', '\n'], " ")));
        }
        for (k, v) in &self.probes.0 {
            s.push_str(&format!("P\t{}\t{}\n", k, v));
        }
        for (k, v) in self.counters.fields() {
            s.push_str(&format!("C\t{k}\t{v}\n"));
        }
        for (i, d) in &self.det {
            s.push_str(&format!("D\t{i}\t{d:016x}\n"));
        }
        for d in &self.digests {
            s.push_str(&format!("G\t{d:016x}\n"));
        }
        for d in &self.shapes {
            s.push_str(&format!("S\t{d:016x}\n"));
        }
        s.push_str("E\n");
        s
    }

    fn from_text(text: &str) -> Agg {
        let mut a = Agg::default();
        for line in text.lines() {
            let f: Vec<&str> = line.split('\t').collect();
            match f[0] {
                "N" if f.len() >= 6 => {
                    a.evals = f[1].parse().unwrap_or(0);
                    a.executions = f[2].parse().unwrap_or(0);
                    a.nontrivial = f[3].parse().unwrap_or(0);
                    a.oom_traces = f[4].parse().unwrap_or(0);
                    a.oom_points = f[5].parse().unwrap_or(0);
                }
                "V" if f.len() >= 7 => {
                    a.viols.insert(
                        f[1].to_string(),
                        VRec {
                            count: f[2].parse().unwrap_or(1),
                            mode: Mode::from_name(f[3]).unwrap_or(Mode::Seeded),
                            idx: f[4].parse().unwrap_or(0),
                            k: f[5].parse().unwrap_or(0),
                            detail: f[6].to_string(),
                        },
                    );
                }
                "H" if f.len() >= 2 => a.herrs.push(f[1].to_string()),
                "P" if f.len() >= 3 => a.probes.add(f[1], f[2].parse().unwrap_or(0)),
                "C" if f.len() >= 3 => a.counters.set(f[1], f[2].parse().unwrap_or(0)),
                "D" if f.len() >= 3 => a.det.push((f[1].parse().unwrap_or(0), u64::from_str_radix(f[2], 16).unwrap_or(0))),
                "G" if f.len() >= 2 => a.digests.push(u64::from_str_radix(f[1], 16).unwrap_or(0)),
                "S" if f.len() >= 2 => a.shapes.push(u64::from_str_radix(f[1], 16).unwrap_or(0)),
                "E" => a.complete = true,
                _ => {}
            }
        }
        a
    }
}

// ---------------------------------------------------------------------------
// Worker: supervisor + forked executors
// ---------------------------------------------------------------------------

pub struct WorkerArgs {
    pub prop: Prop,
    pub base: u64,
    pub directed: (u64, u64),
    pub seeded: (u64, u64),
    pub oom: (u64, u64),
    pub subsets: (u64, u64),
    pub det_sample: u64,
    pub out: String,
}

/// Evaluates OOM trace `idx`: a dry run to count allocation requests, then one
/// isolated execution per failure point.
fn oom_item(prop: Prop, base: u64, idx: u64, agg: &mut Agg) {
    let Some(mut t) = trace_for(prop, base, Mode::Oom, idx, 0) else { return };
    let dry = eval::evaluate_isolated(prop, &t);
    agg.record(Mode::Oom, idx, 0, &dry.res, 0);
    agg.oom_traces += 1;
    let n = dry.res.alloc_requests;
    for k in 1..=n.min(MAX_OOM_POINTS) {
        if proc::hangs_seen() >= 3 || agg.viols.values().filter(|v| v.mode == Mode::Oom).map(|v| v.count).sum::<u64>() >= 24 {
            // the verdict is settled; do not spend the watchdog limit on every point
            agg.probes.hit("oom_enumeration_cut_short_after_hangs");
            return;
        }
        // a transient failure of request k, then an exhausted heap from k on
        for persist in [false, true] {
            t.cfg.fail_at = k;
            t.cfg.fail_persist = persist;
            let iso = eval::evaluate_isolated(prop, &t);
            let mut r = iso.res;
            if r.oom_fired {
                r.probes.hit(if persist { "oom_fired_persistent" } else { "oom_fired" });
            }
            agg.record(Mode::Oom, idx, if persist { k | PERSIST } else { k }, &r, 0);
            agg.oom_points += 1;
        }
    }
}

/// Runs `[from, to)` of `mode` inside one forked executor; falls back to one
/// fork per evaluation when the executor does not finish cleanly.
fn run_chunk(a: &WorkerArgs, mode: Mode, from: u64, to: u64, agg: &mut Agg) {
    if mode == Mode::Oom {
        // every point is isolated already
        for idx in from..to {
            oom_item(a.prop, a.base, idx, agg);
        }
        return;
    }
    let prop = a.prop;
    let base = a.base;
    let directed = if mode == Mode::Directed { Some(gen::directed(prop)) } else { None };
    let out = proc::fork_run(|fd| {
        let mut buf = String::new();
        for idx in from..to {
            let t = match (&directed, mode) {
                (Some(d), _) => match d.get(idx as usize) {
                    Some(t) => t.clone(),
                    None => continue,
                },
                (None, Mode::Subsets) => match gen::subset_trace(prop, idx) {
                    Some(t) => t,
                    None => continue,
                },
                (None, _) => gen::gen_trace(prop, mix(base, idx)),
            };
            let r = eval::evaluate(prop, &t);
            buf.push_str(&format!("I\t{idx}\n"));
            buf.push_str(&eval::encode_result(&r, true));
            if buf.len() > 1 << 16 {
                proc::write_all(fd, buf.as_bytes());
                buf.clear();
            }
        }
        buf.push_str("DONE\n");
        proc::write_all(fd, buf.as_bytes());
    });
    let text = String::from_utf8_lossy(&out.out);
    let clean = out.status == Status::Exited(0) && text.lines().last() == Some("DONE");
    if clean {
        let mut cur: Option<u64> = None;
        let mut block = String::new();
        for line in text.lines() {
            if let Some(rest) = line.strip_prefix("I\t") {
                cur = rest.parse().ok();
                block.clear();
            } else if line == "E" {
                block.push_str("E\n");
                if let Some(idx) = cur {
                    let (r, _) = eval::decode_result(&block);
                    agg.record(mode, idx, 0, &r, a.det_sample);
                }
                cur = None;
            } else if line != "DONE" {
                block.push_str(line);
                block.push('\n');
            }
        }
    } else {
        // careful mode: attribute the death to exactly one evaluation
        for idx in from..to {
            let Some(t) = trace_for(prop, base, mode, idx, 0) else { continue };
            let iso = eval::evaluate_isolated(prop, &t);
            agg.record(mode, idx, 0, &iso.res, a.det_sample);
        }
    }
}

pub fn cmd_worker(a: WorkerArgs) -> i32 {
    let mut agg = Agg::default();
    for (mode, (from, to)) in [(Mode::Directed, a.directed), (Mode::Subsets, a.subsets), (Mode::Seeded, a.seeded), (Mode::Oom, a.oom)] {
        let mut lo = from;
        while lo < to {
            let hi = (lo + CHUNK).min(to);
            run_chunk(&a, mode, lo, hi, &mut agg);
            lo = hi;
            if agg.digests.len() > 1 << 20 {
                agg.compact();
            }
        }
    }
    let text = agg.to_text();
    match std::fs::write(&a.out, text) {
        Ok(()) => 0,
        Err(e) => {
            eprintln!("worker: cannot write {}: {e}", a.out);
            2
        }
    }
}

// ---------------------------------------------------------------------------
// Minimisation
// ---------------------------------------------------------------------------

fn has_sig(prop: Prop, t: &Trace, sig: &str, budget: &mut u32) -> bool {
    if *budget == 0 {
        return false;
    }
    *budget -= 1;
    eval::evaluate_isolated(prop, t).res.viols.iter().any(|(s, _)| s == sig)
}

/// Shrinks ops, arguments and the allocator script while the same signature
/// persists. Bounded by a number of candidate executions (each in a child).
pub fn minimise(prop: Prop, start: &Trace, sig: &str) -> (Trace, u32) {
    let mut budget = 3000u32;
    let total = budget;
    let mut t = start.clone();
    // 1. delete ops (chunks, then single ops), to a fixpoint
    let mut chunk = (t.ops.len() / 2).max(1);
    loop {
        let mut progress = false;
        let mut i = 0;
        while i < t.ops.len() && budget > 0 {
            let end = (i + chunk).min(t.ops.len());
            let mut c = t.clone();
            c.ops.drain(i..end);
            if has_sig(prop, &c, sig, &mut budget) {
                t = c;
                progress = true;
            } else {
                i += chunk;
            }
        }
        if chunk == 1 && !progress {
            break;
        }
        if !progress {
            chunk = (chunk / 2).max(1);
        }
        if budget == 0 {
            break;
        }
    }
    // 2. allocator script towards the baseline
    if t.cfg != Config::BASELINE && budget > 0 {
        let mut c = t.clone();
        c.cfg = Config::BASELINE;
        if has_sig(prop, &c, sig, &mut budget) {
            t = c;
        } else {
            let b = Config::BASELINE;
            let tries: [fn(&mut Config, &Config); 5] = [
                |c, b| c.fill = b.fill,
                |c, b| c.placement = b.placement,
                |c, b| c.realloc_move = b.realloc_move,
                |c, b| c.poison_free = b.poison_free,
                |c, b| c.alloc_seed = b.alloc_seed,
            ];
            for f in tries {
                let mut c = t.clone();
                f(&mut c.cfg, &b);
                if c.cfg != t.cfg && has_sig(prop, &c, sig, &mut budget) {
                    t = c;
                }
            }
        }
    }
    // 3. arguments
    let mut changed = true;
    while changed && budget > 0 {
        changed = false;
        for i in 0..t.ops.len() {
            let fs = ops::first_scalar_index(t.ops[i].kind);
            if fs == usize::MAX {
                continue;
            }
            let mut again = true;
            while again && budget > 0 {
                again = false;
                for cand in ops::shrink_op(&t.ops[i], fs) {
                    let mut c = t.clone();
                    c.ops[i] = cand;
                    if has_sig(prop, &c, sig, &mut budget) {
                        t = c;
                        again = true;
                        changed = true;
                        break;
                    }
                }
            }
        }
    }
    (t, total - budget)
}

// ---------------------------------------------------------------------------
// Known findings
// ---------------------------------------------------------------------------

#[derive(Clone, Debug)]
pub struct Known {
    pub property: String,
    pub signature: String,
    pub what: String,
}

/// `known: property=<id> signature=<sig> <what fails>` lines of
/// /verif/known_findings.txt. `fixed:` lines are documentation only — they
/// suppress nothing.
pub fn load_known(path: &str) -> Vec<Known> {
    let Ok(text) = std::fs::read_to_string(path) else { return vec![] };
    let mut v = Vec::new();
    for line in text.lines() {
        let Some(rest) = line.trim().strip_prefix("known:") else { continue };
        let mut property = String::new();
        let mut signature = String::new();
        let mut what = Vec::new();
        for tok in rest.split_whitespace() {
            if let Some(p) = tok.strip_prefix("property=") {
                property = p.to_string();
            } else if let Some(s) = tok.strip_prefix("signature=") {
                signature = s.to_string();
            } else {
                what.push(tok);
            }
        }
        if !property.is_empty() && !signature.is_empty() {
            v.push(Known { property, signature, what: what.join(" ") });
        }
    }
    v
}

// ---------------------------------------------------------------------------
// check
// ---------------------------------------------------------------------------

pub struct CheckArgs {
    pub prop: Prop,
    pub thorough: bool,
    pub base: u64,
    pub workers: u64,
    pub verif_dir: String,
    pub scale: f64,
    pub profile_tag: String,
    pub write_evidence: bool,
}

fn budgets(prop: Prop, thorough: bool, scale: f64) -> (u64, u64, u64) {
    // (seeded evaluations, OOM traces, determinism sample)
    let (n, oom) = match (prop, thorough) {
        (Prop::C16, false) => (500_000, 300),
        (Prop::C06, false) => (200_000, 250),
        (Prop::C07, false) => (250_000, 250),
        (Prop::C12, false) => (400_000, 400),
        (Prop::C16, true) => (20_000_000, 6000),
        (Prop::C06, true) => (8_000_000, 5000),
        (Prop::C07, true) => (8_000_000, 5000),
        (Prop::C12, true) => (16_000_000, 8000),
    };
    let det = if thorough { 2000 } else { 256 };
    (((n as f64) * scale) as u64, ((oom as f64) * scale).max(1.0) as u64, det)
}

fn split(total: u64, w: u64, i: u64) -> (u64, u64) {
    (total * i / w, total * (i + 1) / w)
}

fn spawn_workers(a: &CheckArgs, directed_n: u64, subsets_n: u64, seeded_n: u64, oom_n: u64, det: u64, workers: u64, tag: &str) -> Result<Agg, String> {
    let exe = std::env::current_exe().map_err(|e| e.to_string())?;
    let scratch = format!("{}/sim/target/scratch-{}-{}-{}", a.verif_dir, a.prop.id(), std::process::id(), tag);
    std::fs::create_dir_all(&scratch).map_err(|e| format!("{scratch}: {e}"))?;
    let mut children = Vec::new();
    for i in 0..workers {
        let (d0, d1) = split(directed_n, workers, i);
        let (s0, s1) = split(seeded_n, workers, i);
        let (o0, o1) = split(oom_n, workers, i);
        let (u0, u1) = split(subsets_n, workers, i);
        let out = format!("{scratch}/w{i}.out");
        let child = std::process::Command::new(&exe)
            .arg("worker")
            .arg(a.prop.id())
            .arg(a.base.to_string())
            .arg(format!("{d0}:{d1}"))
            .arg(format!("{s0}:{s1}"))
            .arg(format!("{o0}:{o1}"))
            .arg(format!("{u0}:{u1}"))
            .arg(det.to_string())
            .arg(&out)
            .spawn()
            .map_err(|e| format!("spawn worker: {e}"))?;
        children.push((child, out));
    }
    let mut agg = Agg::default();
    let mut err = None;
    for (mut child, out) in children {
        let st = child.wait().map_err(|e| e.to_string())?;
        let text = std::fs::read_to_string(&out).unwrap_or_default();
        let part = Agg::from_text(&text);
        if !st.success() || !part.complete {
            err = Some(format!("worker did not finish cleanly (status {st:?}, output {out})"));
        }
        agg.merge(part);
    }
    let _ = std::fs::remove_dir_all(&scratch);
    match err {
        Some(e) => Err(e),
        None => Ok(agg),
    }
}

fn repo_rev() -> String {
    let out = std::process::Command::new("git").args(["-C", "/repo", "rev-parse", "--short", "HEAD"]).output();
    let head = match out {
        Ok(o) if o.status.success() => String::from_utf8_lossy(&o.stdout).trim().to_string(),
        _ => "unknown".to_string(),
    };
    let dirty = std::process::Command::new("git")
        .args(["-C", "/repo", "status", "--porcelain", "--untracked-files=no"])
        .output()
        .map(|o| !o.stdout.is_empty())
        .unwrap_or(false);
    if dirty {
        format!("{head}+dirty")
    } else {
        head
    }
}

fn trace_sample(t: &Trace, how: &str) -> J {
    J::obj(vec![
        ("how", J::s(how)),
        ("allocator_script", J::s(t.cfg.describe())),
        ("ops", J::Arr(t.ops.iter().take(12).map(|o| {
            let mut s = o.to_text();
            if s.len() > 300 {
                s.truncate(300);
                s.push_str("…");
            }
            J::s(s)
        }).collect())),
        ("n_ops", J::u(t.ops.len() as u64)),
    ])
}

pub fn cmd_check(a: CheckArgs) -> i32 {
    let t0 = Instant::now();
    let prop = a.prop;
    // the arena is inherited by the forked children used for minimisation
    simalloc::init();
    let tier = if a.thorough { "thorough" } else { "quick" };
    println!("allocsim check property={} tier={} VERIF_SEED={} workers={} profile={}", prop.id(), tier, a.base, a.workers, a.profile_tag);
    let (seeded_n, oom_n, det) = budgets(prop, a.thorough, a.scale);
    let directed_n = gen::directed(prop).len() as u64;
    let subsets_n: u64 = match (prop, a.thorough) {
        (Prop::C06, true) => 1 << 22,
        (Prop::C06, false) => ((65536.0 * a.scale) as u64).min(1 << 22),
        _ => 0,
    };
    let mut agg = match spawn_workers(&a, directed_n, subsets_n, seeded_n, oom_n, det, a.workers, "main") {
        Ok(g) => g,
        Err(e) => {
            println!("HARNESS-ERROR: {e}");
            return 2;
        }
    };
    // determinism proof: the same seeds in fresh processes at other worker counts
    let mut det_runs = vec![(a.workers, agg.det.clone())];
    let mut det_ok = true;
    let alt_counts: Vec<u64> = if a.thorough { vec![1, 4] } else { vec![1] };
    for w in alt_counts {
        if w == a.workers {
            continue;
        }
        match spawn_workers(&a, 0, 0, det, 0, det, w, &format!("det{w}")) {
            Ok(g) => det_runs.push((w, g.det)),
            Err(e) => {
                println!("HARNESS-ERROR: determinism re-run failed: {e}");
                return 2;
            }
        }
    }
    let mut reference: BTreeMap<u64, u64> = BTreeMap::new();
    for (i, d) in &det_runs[0].1 {
        reference.insert(*i, *d);
    }
    let mut det_compared = 0u64;
    for (w, run) in det_runs.iter().skip(1) {
        for (i, d) in run {
            det_compared += 1;
            if reference.get(i) != Some(d) {
                println!("HARNESS-ERROR: run {i} has digest {d:016x} with {w} workers but {:016x?} with {}", reference.get(i), det_runs[0].0);
                det_ok = false;
            }
        }
    }
    if !det_ok {
        return 2;
    }
    if !agg.herrs.is_empty() {
        for h in &agg.herrs {
            println!("HARNESS-ERROR: {h}");
        }
        return 2;
    }

    // violations → minimise → replay files
    let known = load_known(&format!("{}/known_findings.txt", a.verif_dir));
    let replay_dir = format!("{}/replays", a.verif_dir);
    let _ = std::fs::create_dir_all(&replay_dir);
    let rev = repo_rev();
    let mut new_violations = 0u64;
    let mut vjson = Vec::new();
    let mut kjson = Vec::new();
    let viols: Vec<(String, VRec)> = agg.viols.iter().map(|(k, v)| (k.clone(), v.clone())).collect();
    for (sig, v) in &viols {
        let Some(t) = trace_for(prop, a.base, v.mode, v.idx, v.k) else { continue };
        // a hang costs the watchdog limit per candidate: report the trace as found
        let (min, cands) = if sig.contains("/hang/") { (t.clone(), 0) } else { minimise(prop, &t, sig) };
        let confirm = eval::evaluate_isolated(prop, &min);
        let reproduced = confirm.res.viols.iter().find(|(s, _)| s == sig);
        let detail = reproduced.map(|(_, d)| d.clone()).unwrap_or_else(|| v.detail.clone());
        let file = format!("{}/{}-{}.replay", replay_dir, prop.id(), sig.replace('/', "_").replace(|c: char| !c.is_ascii_alphanumeric() && c != '_' && c != '-', ""));
        let rep = Replay {
            trace: min.clone(),
            seed: a.base,
            repo_rev: rev.clone(),
            expect_sig: sig.clone(),
            expect_digest: confirm.res.digest,
            note: format!("found at {} idx {} k {}; {} occurrences in this batch; minimised from {} to {} ops with {} candidate runs; {}", v.mode.name(), v.idx, v.k, v.count, t.ops.len(), min.ops.len(), cands, detail),
        };
        if let Err(e) = std::fs::write(&file, rep.to_text()) {
            println!("HARNESS-ERROR: cannot write {file}: {e}");
            return 2;
        }
        let k = known.iter().find(|k| k.property == prop.id() && &k.signature == sig);
        let entry = J::obj(vec![
            ("signature", J::s(sig.clone())),
            ("occurrences", J::u(v.count)),
            ("first_at", J::s(format!("{} idx {} k {}", v.mode.name(), v.idx, v.k))),
            ("replay", J::s(file.clone())),
            ("minimised_ops", J::u(min.ops.len() as u64)),
            ("needs_allocator", J::s(min.cfg.describe())),
            ("reproduced_from_replay", J::Bool(reproduced.is_some())),
            ("detail", J::s(detail.clone())),
        ]);
        match k {
            Some(k) => {
                println!("KNOWN-FINDING: property={} {} {} (replay={})", prop.id(), sig, k.what, file);
                kjson.push(entry);
            }
            None => {
                println!("VIOLATION property={} replay={}", prop.id(), file);
                println!("  signature: {sig}");
                println!("  occurrences: {} (first at {} idx {} k {})", v.count, v.mode.name(), v.idx, v.k);
                println!("  minimised: {} ops, allocator {}", min.ops.len(), min.cfg.describe());
                println!("  detail: {detail}");
                new_violations += 1;
                vjson.push(entry);
            }
        }
    }
    for k in known.iter().filter(|k| k.property == prop.id()) {
        if !agg.viols.contains_key(&k.signature) {
            println!("note: known finding {} was not observed in this batch", k.signature);
        }
    }

    // evidence
    let wall = t0.elapsed().as_secs_f64();
    agg.compact();
    let distinct = agg.digests.len() as u64;
    let per_hour = |n: u64| J::u((n as f64 / wall.max(0.001) * 3600.0) as u64);
    let mut samples = Vec::new();
    if let Some(t) = trace_for(prop, a.base, Mode::Directed, directed_n / 2, 0) {
        samples.push(trace_sample(&t, &format!("directed corpus #{}", directed_n / 2)));
    }
    for i in [0u64, 1] {
        if let Some(t) = trace_for(prop, a.base, Mode::Seeded, i, 0) {
            samples.push(trace_sample(&t, &format!("seeded run {i} (seed {:#x})", mix(a.base, i))));
        }
    }
    if let Some(t) = trace_for(prop, a.base, Mode::Oom, 0, 1) {
        samples.push(trace_sample(&t, "allocation-failure enumeration: trace 0, failing request 1"));
    }
    let fault = |name: &str| agg.probes.0.get(name).copied().unwrap_or(0);
    let c = agg.counters;
    let faults = J::obj(vec![
        ("F-minalign (allocations actually returned at addr ≢ 0 mod 2·align)", J::u(c.minaligned)),
        ("F-minalign-8mod16 (8-aligned requests returned at 8 mod 16)", J::u(c.at_8_mod_16)),
        ("F-dirty (allocations handed out with non-zero contents)", J::u(c.dirty)),
        ("F-reuse (allocations that landed on previously used bytes)", J::u(c.recycled)),
        ("F-realloc-move (reallocs that moved the block)", J::u(c.reallocs_moved)),
        ("F-realloc-in-place", J::u(c.reallocs_in_place)),
        ("F-page-end (allocations flush against a PROT_NONE guard page)", J::u(c.guarded)),
        ("F-straddle-4G (allocations placed across or flush against a multiple of 4 GiB)", J::u(c.straddled)),
        ("F-oom (allocation requests that returned null)", J::u(c.failed_allocs + fault("oom_landed_in_vec_or_box_abort"))),
        ("F-oom landed in new_boxed (controlled panic)", J::u(fault("oom_landed_in_new_boxed_panic"))),
        ("F-oom landed in Vec/Box::new (handle_alloc_error abort)", J::u(fault("oom_landed_in_vec_or_box_abort"))),
        ("F-oom-persistent (runs in which every request from the k-th on failed: exhausted heap)", J::u(fault("oom_fired_persistent"))),
        ("F-precondition (documented precondition violated → controlled panic)", J::u(fault("precondition_panic") + fault("leak_on_ctor_panic"))),
        ("F-dirty-stack (constructor calls made over a stack region filled with a known non-zero byte)", J::u(fault("constructor_over_dirtied_stack"))),
        ("F-alias (new_boxed given adjacent / overlapping / repeated source slices)", J::u(fault("new_boxed_slices_adjacent_in_one_buffer") + fault("new_boxed_slices_overlapping") + fault("new_boxed_same_slice_repeated"))),
    ]);
    let probes = J::Obj(agg.probes.0.iter().map(|(k, v)| (k.clone(), J::u(*v))).collect());
    let zero_probes: Vec<J> = expected_probes(prop).into_iter().filter(|p| fault(p) == 0).map(J::s).collect();
    let coverage = J::obj(vec![
        ("evaluations", J::u(agg.evals)),
        ("distinct_nontrivial", J::u(distinct)),
        ("rule", J::s("one evaluation = one operation trace executed against the real crates under the baseline allocator script and under its drawn script (fault-free), or under one allocation-failure point (fault-injecting); traces come from the fixed directed corpus, from VERIF_SEED-derived seeds (seed_i = mix(VERIF_SEED, i); workload and allocator decisions forked by label) and from the allocation-failure enumeration. Non-trivial = made at least one simulated allocation and at least one model comparison. Distinct = distinct run digests (hash of per-op observables and the allocator event sequence by arena offset) among non-trivial evaluations, counted by sorting and de-duplicating the recorded digests.")),
        ("samples", J::Arr(samples)),
        ("exhaustive", J::Bool(false)),
        ("executions", J::u(agg.executions)),
        ("directed_corpus_traces", J::u(directed_n)),
        ("seeded_evaluations", J::u(seeded_n)),
        ("builder_slot_subsets_enumerated", J::u(subsets_n)),
        ("builder_slot_subsets_note", J::s(match (prop, a.thorough) {
            (Prop::C06, true) => "all 2^22 subsets of the 22 builder slots, each once, in declaration order with marker contents (supplement to the seeded search; orders, repeats and contents are sampled)",
            (Prop::C06, false) => "a spread sample of the 2^22 slot subsets (idx·odd constant mod 2^22); the thorough tier enumerates all of them",
            (Prop::C12, _) => "all 2^10 subsets × 2 architectures are part of the directed corpus",
            _ => "not applicable to this property",
        })),
        ("allocation_failure_traces", J::u(agg.oom_traces)),
        ("allocation_failure_points_enumerated", J::u(agg.oom_points)),
        ("simulated_runs_per_hour", per_hour(agg.executions)),
        ("seeds_per_hour", per_hour(agg.evals)),
        ("simulated_time_covered_s", J::Int(0)),
        ("simulated_time_note", J::s("the crates contain no clock, timer, sleep or deadline; there is no simulated time to cover")),
        ("fault_kinds_fired", faults),
        ("distinct_event_order_signatures", J::u(agg.shapes.len() as u64)),
        ("distinct_states_measure", J::s("distinct_event_order_signatures = distinct sequences of (op kind, allocator event kind, size class, recycled?) with concrete values erased; distinct_nontrivial = distinct full run digests")),
        ("probes", probes),
        ("probes_at_zero", J::Arr(zero_probes)),
        ("determinism", J::obj(vec![
            ("seeds_rerun_in_fresh_processes", J::u(det)),
            ("worker_counts_compared", J::Arr(det_runs.iter().map(|(w, _)| J::u(*w)).collect())),
            ("digests_compared", J::u(det_compared)),
            ("mismatches", J::u(0)),
        ])),
        ("components", J::obj(vec![
            ("real", J::Arr(vec![J::s("multiboot2-common (working tree of /repo, default features)"), J::s("multiboot2 (working tree)"), J::s("multiboot2-header (working tree)"), J::s("alloc::boxed::Box / alloc::vec::Vec of the Rust standard library")])),
            ("stub", J::Arr(vec![J::s("the global allocator (SimAlloc: placement, fill, reuse, realloc-move, failure, red zones, guard pages)")])),
        ])),
        ("second_engine_miri", J::s(std::env::var("VERIF_MIRI_SUMMARY").unwrap_or_else(|_| "not run".into()))),
        ("build_profile", J::s(a.profile_tag.clone())),
        ("repo_rev", J::s(rev.clone())),
        ("violations", J::Arr(vjson)),
        ("known_findings_observed", J::Arr(kjson)),
    ]);
    let ev = J::obj(vec![
        ("property_id", J::s(prop.id())),
        ("tier", J::s(tier)),
        ("seed", J::Int(a.base as i64)),
        ("level", J::s("exploration")),
        ("coverage", coverage),
        ("assumptions", J::Arr(vec![
            J::s("x86_64 little-endian host; the harness build (opt-level 2, debug assertions and overflow checks on unless build_profile says otherwise, panic=unwind)"),
            J::s("the allocator behaviours simulated are those GlobalAlloc permits; real allocators may behave in ways not modelled (e.g. thread caches)"),
            J::s("sampling, not enumeration: a clean batch is evidence, not proof"),
            J::s("out-of-bounds reads inside the arena and typed reads of uninitialised bytes are invisible to SimAlloc except where a guard page or the environment-independence comparison exposes them"),
        ])),
        ("wall_s", J::Num(wall)),
        ("violations", J::Int(new_violations as i64)),
    ]);
    if a.write_evidence {
        let path = format!("{}/evidence/{}.json", a.verif_dir, prop.id());
        let _ = std::fs::create_dir_all(format!("{}/evidence", a.verif_dir));
        if let Err(e) = std::fs::write(&path, ev.to_string_pretty()) {
            println!("HARNESS-ERROR: cannot write {path}: {e}");
            return 2;
        }
    }
    println!(
        "summary property={} tier={} evaluations={} executions={} distinct_nontrivial={} oom_points={} new_violations={} known_findings={} wall={:.1}s",
        prop.id(), tier, agg.evals, agg.executions, distinct, agg.oom_points, new_violations, viols.len() as u64 - new_violations, wall
    );
    let _ = std::io::stdout().flush();
    if new_violations > 0 {
        1
    } else {
        0
    }
}

fn expected_probes(prop: Prop) -> Vec<&'static str> {
    let mut v = vec!["oom_landed_in_new_boxed_panic"];
    match prop {
        Prop::C16 => v.extend([
            "empty_slice_in_partition",
            "partition_with_0_slices",
            "dst_result_at_8_mod_16",
            "leak_on_ctor_panic",
            "new_boxed_slices_adjacent_in_one_buffer",
            "new_boxed_slices_overlapping",
            "new_boxed_same_slice_repeated",
            "oom_fired_persistent",
        ]),
        Prop::C07 => v.extend(["byvalue_tag_at_minaligned_address", "precondition_panic", "oom_landed_in_vec_or_box_abort", "constructor_over_dirtied_stack", "oom_fired_persistent"]),
        Prop::C06 => v.extend([
            "repeatable_slot_with_3_entries",
            "realloc_moved_during_build",
            "built_at_8_mod_16",
            "precondition_panic",
            "oom_landed_in_vec_or_box_abort",
            "oom_fired_persistent",
            "mbi_history_with_over_255_tags",
            "builder_from_default",
        ]),
        Prop::C12 => v.extend(["built_at_8_mod_16", "realloc_moved_during_build", "oom_landed_in_vec_or_box_abort"]),
    }
    v
}

// ---------------------------------------------------------------------------
// replay
// ---------------------------------------------------------------------------

pub fn cmd_replay(path: &str) -> i32 {
    let text = match std::fs::read_to_string(path) {
        Ok(t) => t,
        Err(e) => {
            println!("HARNESS-ERROR: cannot read {path}: {e}");
            return 2;
        }
    };
    let rep = match Replay::from_text(&text) {
        Ok(r) => r,
        Err(e) => {
            println!("HARNESS-ERROR: {path}: {e}");
            return 2;
        }
    };
    let Some(prop) = Prop::from_id(&rep.trace.property) else {
        println!("HARNESS-ERROR: unknown property {}", rep.trace.property);
        return 2;
    };
    simalloc::init();
    let iso = eval::evaluate_isolated(prop, &rep.trace);
    if let Some(h) = &iso.res.herr {
        println!("HARNESS-ERROR: {h}");
        return 2;
    }
    println!("replay {path}: {} ops, allocator {}", rep.trace.ops.len(), rep.trace.cfg.describe());
    for (s, d) in &iso.res.viols {
        println!("  observed {s}: {d}");
    }
    let hit = iso.res.viols.iter().any(|(s, _)| s == &rep.expect_sig);
    if hit {
        println!(
            "VIOLATION property={} replay={} signature={} digest={:#018x} ({})",
            prop.id(),
            path,
            rep.expect_sig,
            iso.res.digest,
            if iso.res.digest == rep.expect_digest { "digest matches the recorded run" } else { "digest differs from the recorded run: the code changed since" }
        );
        1
    } else {
        println!("not reproduced: signature {} does not occur on this tree", rep.expect_sig);
        0
    }
}

// ---------------------------------------------------------------------------
// Miri tier
// ---------------------------------------------------------------------------

/// Native helper for the Miri tier: writes every `stride`-th directed trace
/// and `seeded` (size-bounded) seeded traces as replay blocks. Generating the
/// corpus inside the interpreter would cost minutes; executing it is the point.
pub fn cmd_dump_traces(prop: Prop, base: u64, stride: u64, seeded: u64) -> i32 {
    let directed = gen::directed(prop);
    let mut i = 0u64;
    let mut out = String::new();
    let mut emit = |mode: Mode, idx: u64, mut t: Trace| {
        t.cfg = Config::BASELINE;
        let rep = Replay { trace: t, seed: base, repo_rev: "n/a".into(), expect_sig: "none".into(), expect_digest: 0, note: "miri".into() };
        out.push_str(&format!("=== {} {} {}\n", prop.id(), mode.name(), idx));
        out.push_str(&rep.to_text());
    };
    while (i as usize) < directed.len() && stride > 0 {
        emit(Mode::Directed, i, directed[i as usize].clone());
        i += stride;
    }
    let mut taken = 0;
    let mut idx = 0u64;
    while taken < seeded && idx < seeded * 20 {
        let t = gen::gen_trace(prop, mix(base, idx));
        // keep interpretation time bounded: short traces, moderate contents
        // and no operation that leaks by contract (a `new_boxed` whose content
        // the kind's `dst_len` rejects after the allocation was made): Miri's
        // end-of-run leak check is wanted for everything else
        if t.ops.len() <= 24
            && t.ops.iter().all(|o| o.b.iter().map(|b| b.len()).sum::<usize>() <= 1200)
            && !t.ops.iter().any(crate::interp::leaks_by_contract)
        {
            emit(Mode::Seeded, idx, t);
            taken += 1;
        }
        idx += 1;
    }
    print!("{out}");
    0
}

/// Executes the replay blocks of `path` in this process. Meant to be
/// interpreted by Miri (isolation disabled for the one file read): undefined
/// behaviour, invalid frees and leaks are reported by Miri itself (non-zero
/// exit); the model oracles still run and report through the return code.
pub fn cmd_miri_file(path: &str) -> i32 {
    let Ok(text) = std::fs::read_to_string(path) else {
        println!("HARNESS-ERROR: cannot read {path}");
        return 2;
    };
    let mut bad = 0;
    let mut prop_id = String::new();
    for block in text.split("=== ").skip(1) {
        let (head, body) = block.split_once('\n').unwrap_or((block, ""));
        let Ok(rep) = Replay::from_text(body) else {
            println!("HARNESS-ERROR: cannot parse block {head}");
            return 2;
        };
        let Some(prop) = Prop::from_id(&rep.trace.property) else { return 2 };
        prop_id = prop.id().to_string();
        println!("MIRI-TRACE {head}");
        let out = crate::interp::execute(prop, &rep.trace);
        for v in &out.violations {
            println!("MIRI-ORACLE-VIOLATION {} op {}: {}", v.sig, v.op, v.detail);
            bad += 1;
        }
    }
    println!("MIRI-DONE {prop_id}");
    if bad > 0 {
        1
    } else {
        0
    }
}

pub fn cmd_miri_replay(path: &str) -> i32 {
    let Ok(text) = std::fs::read_to_string(path) else {
        println!("HARNESS-ERROR: cannot read {path}");
        return 2;
    };
    let Ok(rep) = Replay::from_text(&text) else {
        println!("HARNESS-ERROR: cannot parse {path}");
        return 2;
    };
    let Some(prop) = Prop::from_id(&rep.trace.property) else { return 2 };
    let mut t = rep.trace.clone();
    t.cfg = Config::BASELINE;
    let out = crate::interp::execute(prop, &t);
    for v in &out.violations {
        println!("MIRI-ORACLE-VIOLATION {} op {}: {}", v.sig, v.op, v.detail);
    }
    if out.violations.is_empty() {
        0
    } else {
        1
    }
}
