//! Process isolation: a simulated run that may crash (null write, heap
//! corruption, `handle_alloc_error` abort) is executed in a forked child so
//! that the death is attributable to exactly one run and never takes a batch
//! down. Only called from single-threaded processes.

extern "C" {
    fn fork() -> i32;
    fn pipe(fds: *mut i32) -> i32;
    fn read(fd: i32, buf: *mut u8, n: usize) -> isize;
    fn write(fd: i32, buf: *const u8, n: usize) -> isize;
    fn close(fd: i32) -> i32;
    fn waitpid(pid: i32, status: *mut i32, options: i32) -> i32;
    fn _exit(code: i32) -> !;
    fn dup2(a: i32, b: i32) -> i32;
    fn poll(fds: *mut PollFd, n: u64, timeout_ms: i32) -> i32;
    fn kill(pid: i32, sig: i32) -> i32;
    fn open(path: *const u8, flags: i32, ...) -> i32;
}

#[repr(C)]
struct PollFd {
    fd: i32,
    events: i16,
    revents: i16,
}

/// Watchdog: a child that writes nothing for this long is killed and reported
/// as hung. Only a hang (an endless loop introduced into the library) ever
/// meets it; ordinary chunks finish in well under a second.
pub const SILENCE_LIMIT_MS: i32 = 120_000;
/// After the first hang in this process the limit drops (the verdict is
/// already "violation"; the remaining runs only add detail).
pub const SILENCE_LIMIT_AFTER_HANG_MS: i32 = 8_000;
static HANGS: std::sync::atomic::AtomicU32 = std::sync::atomic::AtomicU32::new(0);

pub fn hangs_seen() -> u32 {
    HANGS.load(std::sync::atomic::Ordering::Relaxed)
}

#[derive(Clone, Copy, Debug, PartialEq, Eq)]
pub enum Status {
    Exited(i32),
    Signaled(i32),
}

pub struct ChildOutcome {
    pub out: Vec<u8>,
    pub status: Status,
    /// killed by the watchdog after `SILENCE_LIMIT_MS` without output
    pub hung: bool,
}

pub fn write_all(fd: i32, mut data: &[u8]) {
    while !data.is_empty() {
        let n = unsafe { write(fd, data.as_ptr(), data.len()) };
        if n <= 0 {
            return;
        }
        data = &data[n as usize..];
    }
}

pub fn silence_stderr() {
    unsafe {
        let fd = open(b"/dev/null\0".as_ptr(), 1 /* O_WRONLY */);
        if fd >= 0 {
            dup2(fd, 2);
            close(fd);
        }
    }
}

/// Runs `f(write_fd)` in a forked child and collects everything it wrote.
/// The child never returns: it `_exit`s after `f`.
pub fn fork_run(f: impl FnOnce(i32)) -> ChildOutcome {
    let mut fds = [0i32; 2];
    assert_eq!(unsafe { pipe(fds.as_mut_ptr()) }, 0, "pipe failed");
    let pid = unsafe { fork() };
    assert!(pid >= 0, "fork failed");
    if pid == 0 {
        unsafe {
            close(fds[0]);
            // stderr joins the result pipe: the parent tells the documented
            // `handle_alloc_error` abort ("memory allocation of N bytes
            // failed") from any other abort by its message
            dup2(fds[1], 2);
        }
        f(fds[1]);
        unsafe {
            close(fds[1]);
            _exit(0)
        }
    }
    unsafe { close(fds[1]) };
    let mut out = Vec::new();
    let mut buf = [0u8; 65536];
    let mut hung = false;
    let started = std::time::Instant::now();
    loop {
        // absolute cap as well: a child that keeps producing output forever
        if started.elapsed().as_secs() > 900 || out.len() > (1 << 30) {
            hung = true;
            HANGS.fetch_add(1, std::sync::atomic::Ordering::Relaxed);
            unsafe { kill(pid, 9) };
            break;
        }
        let mut pfd = PollFd { fd: fds[0], events: 1 /* POLLIN */, revents: 0 };
        let limit = if hangs_seen() == 0 { SILENCE_LIMIT_MS } else { SILENCE_LIMIT_AFTER_HANG_MS };
        let ready = unsafe { poll(&mut pfd, 1, limit) };
        if ready == 0 {
            hung = true;
            HANGS.fetch_add(1, std::sync::atomic::Ordering::Relaxed);
            unsafe { kill(pid, 9) };
            break;
        }
        if ready < 0 {
            continue; // EINTR
        }
        let n = unsafe { read(fds[0], buf.as_mut_ptr(), buf.len()) };
        if n > 0 {
            out.extend_from_slice(&buf[..n as usize]);
        } else {
            break;
        }
    }
    unsafe { close(fds[0]) };
    let mut st = 0i32;
    unsafe { waitpid(pid, &mut st, 0) };
    let status = if st & 0x7f == 0 { Status::Exited((st >> 8) & 0xff) } else { Status::Signaled(st & 0x7f) };
    ChildOutcome { out, status, hung }
}

pub fn signal_name(sig: i32) -> String {
    match sig {
        4 => "SIGILL".into(),
        6 => "SIGABRT".into(),
        7 => "SIGBUS".into(),
        8 => "SIGFPE".into(),
        9 => "SIGKILL".into(),
        11 => "SIGSEGV".into(),
        n => format!("SIG{n}"),
    }
}
