//! Process isolation: a simulated run that may crash (null write, heap
//! corruption, `handle_alloc_error` abort) is executed in a forked child so
//! that the death is attributable to exactly one run and never takes a batch
//! down. Only called from single-threaded processes.

extern "C" {
    fn fork() -> i32;
    fn pipe(fds: *mut i32) -> i32;
    fn read(fd: i32, buf: *mut u8, n: usize) -> isize;
    fn write(fd: i32, buf: *const u8, n: usize) -> isize;
    fn close(fd: i32) -> i32;
    fn waitpid(pid: i32, status: *mut i32, options: i32) -> i32;
    fn _exit(code: i32) -> !;
    fn dup2(a: i32, b: i32) -> i32;
    fn open(path: *const u8, flags: i32, ...) -> i32;
}

#[derive(Clone, Copy, Debug, PartialEq, Eq)]
pub enum Status {
    Exited(i32),
    Signaled(i32),
}

pub struct ChildOutcome {
    pub out: Vec<u8>,
    pub status: Status,
}

pub fn write_all(fd: i32, mut data: &[u8]) {
    while !data.is_empty() {
        let n = unsafe { write(fd, data.as_ptr(), data.len()) };
        if n <= 0 {
            return;
        }
        data = &data[n as usize..];
    }
}

pub fn silence_stderr() {
    unsafe {
        let fd = open(b"/dev/null\0".as_ptr(), 1 /* O_WRONLY */);
        if fd >= 0 {
            dup2(fd, 2);
            close(fd);
        }
    }
}

/// Runs `f(write_fd)` in a forked child and collects everything it wrote.
/// The child never returns: it `_exit`s after `f`.
pub fn fork_run(f: impl FnOnce(i32)) -> ChildOutcome {
    let mut fds = [0i32; 2];
    assert_eq!(unsafe { pipe(fds.as_mut_ptr()) }, 0, "pipe failed");
    let pid = unsafe { fork() };
    assert!(pid >= 0, "fork failed");
    if pid == 0 {
        unsafe {
            close(fds[0]);
            // stderr joins the result pipe: the parent tells the documented
            // `handle_alloc_error` abort ("memory allocation of N bytes
            // failed") from any other abort by its message
            dup2(fds[1], 2);
        }
        f(fds[1]);
        unsafe {
            close(fds[1]);
            _exit(0)
        }
    }
    unsafe { close(fds[1]) };
    let mut out = Vec::new();
    let mut buf = [0u8; 65536];
    loop {
        let n = unsafe { read(fds[0], buf.as_mut_ptr(), buf.len()) };
        if n > 0 {
            out.extend_from_slice(&buf[..n as usize]);
        } else if n == 0 {
            break;
        } else {
            // EINTR and friends: retry a bounded number of times is not
            // needed here — no signal handlers are installed
            break;
        }
    }
    unsafe { close(fds[0]) };
    let mut st = 0i32;
    unsafe { waitpid(pid, &mut st, 0) };
    let status = if st & 0x7f == 0 { Status::Exited((st >> 8) & 0xff) } else { Status::Signaled(st & 0x7f) };
    ChildOutcome { out, status }
}

pub fn signal_name(sig: i32) -> String {
    match sig {
        4 => "SIGILL".into(),
        6 => "SIGABRT".into(),
        7 => "SIGBUS".into(),
        8 => "SIGFPE".into(),
        9 => "SIGKILL".into(),
        11 => "SIGSEGV".into(),
        n => format!("SIG{n}"),
    }
}
