//! The only source of randomness in the simulator.
//!
//! `splitmix64` derives per-run seeds and per-label streams from the single
//! `VERIF_SEED`; `Rng` is xoshiro256** seeded through splitmix64. Nothing in
//! here reads a clock, an address or the environment.

#[inline]
pub fn splitmix64(x: u64) -> u64 {
    let mut z = x.wrapping_add(0x9E37_79B9_7F4A_7C15);
    z = (z ^ (z >> 30)).wrapping_mul(0xBF58_476D_1CE4_E5B9);
    z = (z ^ (z >> 27)).wrapping_mul(0x94D0_49BB_1331_11EB);
    z ^ (z >> 31)
}

/// Mixes two words into one (used for `seed_i = mix(base, i)` and stream forks).
#[inline]
pub fn mix(a: u64, b: u64) -> u64 {
    splitmix64(a ^ splitmix64(b.wrapping_add(0xA5A5_5A5A_DEAD_BEEF)))
}

/// Stream labels: forking by label keeps workload, allocator and fault
/// decisions independent of each other.
pub const STREAM_WORKLOAD: u64 = 0x574F_524B; // "WORK"
pub const STREAM_ALLOC: u64 = 0x414C_4C4F; // "ALLO"
pub const STREAM_FAULT: u64 = 0x4641_554C; // "FAUL"

#[derive(Clone, Debug)]
pub struct Rng {
    s: [u64; 4],
}

impl Rng {
    pub fn new(seed: u64) -> Self {
        let mut x = seed;
        let mut s = [0u64; 4];
        for v in &mut s {
            x = splitmix64(x);
            *v = x;
        }
        if s == [0; 4] {
            s[0] = 1;
        }
        Self { s }
    }

    pub fn fork(seed: u64, label: u64) -> Self {
        Self::new(mix(seed, label))
    }

    #[inline]
    pub fn next_u64(&mut self) -> u64 {
        let r = self.s[1].wrapping_mul(5).rotate_left(7).wrapping_mul(9);
        let t = self.s[1] << 17;
        self.s[2] ^= self.s[0];
        self.s[3] ^= self.s[1];
        self.s[1] ^= self.s[2];
        self.s[0] ^= self.s[3];
        self.s[2] ^= t;
        self.s[3] = self.s[3].rotate_left(45);
        r
    }

    /// Uniform in `0..n` (n > 0). Modulo bias is irrelevant at these sizes.
    #[inline]
    pub fn below(&mut self, n: u64) -> u64 {
        debug_assert!(n > 0);
        self.next_u64() % n
    }

    /// Uniform in `lo..=hi`.
    #[inline]
    pub fn range(&mut self, lo: u64, hi: u64) -> u64 {
        lo + self.below(hi - lo + 1)
    }

    /// True with probability `num/den`.
    #[inline]
    pub fn chance(&mut self, num: u64, den: u64) -> bool {
        self.below(den) < num
    }

    pub fn pick<'a, T>(&mut self, xs: &'a [T]) -> &'a T {
        &xs[self.below(xs.len() as u64) as usize]
    }

    /// A scalar of `bits` width drawn from the classes the design names:
    /// 0, 1, boundary, byte-distinct marker, random.
    pub fn scalar(&mut self, bits: u32, marker_index: u64) -> u64 {
        let mask = if bits >= 64 { u64::MAX } else { (1u64 << bits) - 1 };
        // values that mean something in this domain: magics, classic
        // addresses and geometries, page/segment sizes, 32/64-bit boundaries —
        // the constants a maintainer would special-case
        match self.below(11) {
            10 => self.dict(bits),
            0 => 0,
            1 => 1,
            2 => mask,
            3 => mask >> 1,
            // small numbers: sizes, type numbers and other values that mean
            // something elsewhere in the format (8 = size of an end tag, …)
            8 => self.below(33) & mask,
            // single bits and values around byte boundaries
            9 => {
                let b = self.below(bits as u64);
                ((1u64 << b).wrapping_sub(self.below(2))) & mask
            }
            4 | 5 => {
                // Byte-distinct marker: every byte of every argument differs,
                // so swapped same-width fields and wrong endianness show up.
                let mut v = 0u64;
                for i in 0..8u64 {
                    let b = 0x11u64
                        .wrapping_add(marker_index.wrapping_mul(0x10))
                        .wrapping_add(i)
                        & 0xff;
                    v |= b << (8 * i);
                }
                v & mask
            }
            _ => self.next_u64() & mask,
        }
    }

    /// A value that means something in this domain: magics, classic
    /// addresses and geometries, structure sizes, page/segment sizes,
    /// 16/32/64-bit boundaries — the constants a maintainer would special-case.
    pub fn dict(&mut self, bits: u32) -> u64 {
        const DICT: [u64; 40] = [
            0xB8000, 0xA0000, 0x100000, 0x1000, 0x7C00, 0xE852_50D6, 0x36D7_6289, 0x1BAD_B002, 0x2BAD_B002,
            640, 480, 800, 600, 1024, 768, 80, 25, 32, 24, 16, 15, 8, 4, 2, 3, 0xFFFF, 0x1_0000, 0xFFFF_FFFE,
            0x1_0000_0000, 0xFFFF_FFFF_FFFF_F000, 0x8000_0000, 0x7FFF_FFFF, 40, 64, 48, 20, 28, 36, 0xFF, 0x100,
        ];
        let mask = if bits >= 64 { u64::MAX } else { (1u64 << bits) - 1 };
        *self.pick(&DICT) & mask
    }

    pub fn bytes(&mut self, n: usize) -> Vec<u8> {
        let mut v = Vec::with_capacity(n);
        let style = self.below(6);
        // an 8-byte MBI end tag / header end tag image: content that looks
        // like a terminator must not confuse anything
        const END_LIKE: [u8; 8] = [0, 0, 0, 0, 8, 0, 0, 0];
        for i in 0..n {
            v.push(match style {
                0 => (i as u8).wrapping_add(1),
                1 => 0,
                2 => 0xff,
                3 => END_LIKE[i % 8],
                _ => self.next_u64() as u8,
            });
        }
        v
    }
}

/// FNV-1a style 64-bit digest with a final splitmix; used for run digests.
#[derive(Clone, Copy, Debug)]
pub struct Digest(pub u64);

impl Default for Digest {
    fn default() -> Self {
        Self(0xcbf2_9ce4_8422_2325)
    }
}

impl Digest {
    #[inline]
    pub fn u8(&mut self, b: u8) {
        self.0 = (self.0 ^ b as u64).wrapping_mul(0x0000_0100_0000_01B3);
    }
    #[inline]
    pub fn u64(&mut self, v: u64) {
        for b in v.to_le_bytes() {
            self.u8(b);
        }
    }
    pub fn bytes(&mut self, bs: &[u8]) {
        self.u64(bs.len() as u64);
        for &b in bs {
            self.u8(b);
        }
    }
    pub fn str(&mut self, s: &str) {
        self.bytes(s.as_bytes());
    }
    pub fn finish(&self) -> u64 {
        splitmix64(self.0)
    }
}
