//! `SimAlloc`: the simulated global allocator — the one stub in the system.
//!
//! The crates under test reach the heap only through `alloc::alloc::alloc`,
//! `Box` and `Vec`, i.e. through `GlobalAlloc`. This allocator serves those
//! requests from a private arena *only while the harness is inside a library
//! call* (scope flag); everything the harness itself allocates goes to
//! `System`. `dealloc`/`realloc` are routed by address, so objects the library
//! returned and the harness drops later are still tracked.
//!
//! What it does that glibc malloc never does (all legal for an allocator):
//! returns addresses aligned to exactly `layout.align()`, returns dirty or
//! stale memory, recycles just-freed blocks, moves on every `realloc`, fails
//! the k-th request, and checks the `(ptr, Layout)` pair on free.
//!
//! The allocator never panics and never allocates; violations are recorded as
//! flags that the interpreter collects after each operation.
//!
//! Single-threaded by construction: only worker/replay processes ever set the
//! scope flag, and they run one simulated execution at a time on one thread.

use crate::rng::mix;
use std::alloc::{GlobalAlloc, Layout, System};
use std::sync::atomic::{AtomicBool, AtomicUsize, Ordering};

pub const ARENA_LEN: usize = 64 << 20;
pub const RZ: usize = 32; // red zone either side of every block
// Under Miri SimAlloc is compiled out; the (unused) state is kept tiny because
// every `&mut` to it is retagged byte by byte by the borrow tracker.
#[cfg(not(miri))]
const MAX_BLOCKS: usize = 8192;
#[cfg(not(miri))]
const MAX_EVENTS: usize = 32768;
#[cfg(miri)]
const MAX_BLOCKS: usize = 4;
#[cfg(miri)]
const MAX_EVENTS: usize = 4;
const MAX_FLAGS: usize = 64;
const VIRGIN: u8 = 0xCD; // never-allocated arena bytes
const POISON: u8 = 0xDD; // freed bytes

static ACTIVE: AtomicBool = AtomicBool::new(false);
static ARENA_BASE: AtomicUsize = AtomicUsize::new(0);
/// Arena offset of a multiple of 4 GiB (0 = the arena does not contain one).
static BOUNDARY_OFF: AtomicUsize = AtomicUsize::new(0);
/// When ≥ 0, a failed allocation writes one line to this fd *before* the
/// caller sees the null pointer — so a parent process can tell an abort that
/// follows an injected failure from any other abort.
static OOM_FD: std::sync::atomic::AtomicI32 = std::sync::atomic::AtomicI32::new(-1);

pub fn set_oom_fd(fd: i32) {
    OOM_FD.store(fd, Ordering::Relaxed);
}

#[derive(Clone, Copy, Debug, PartialEq, Eq)]
pub enum Placement {
    /// malloc-like: every block 16-aligned (the baseline the test-suite sees).
    Natural16 = 0,
    /// addr ≡ align (mod 2·align): exactly as aligned as requested, no more.
    MinAlign = 1,
    /// most recently freed fitting block first (no quarantine), else MinAlign.
    ReuseLifo = 2,
    /// seeded gap in front of each block, alignment class drawn per allocation.
    RandomGap = 3,
    /// block ends flush against an inaccessible guard page (PROT_NONE):
    /// any access past the end of the allocation faults.
    PageEnd = 4,
    /// a plain bump allocator without headers or red zones: consecutive
    /// allocations are exactly adjacent in memory (what a small bootloader
    /// heap does); overruns are not detected in this mode
    Packed = 5,
    /// like MinAlign, but one allocation of the run (the first one at least as
    /// large as a size drawn from the script) is put across — or flush against
    /// — a multiple of 4 GiB: code that folds an address into 32 bits
    /// somewhere only notices there. Needs the arena to be mapped around such
    /// a boundary (see `init`); otherwise it behaves like MinAlign.
    Straddle4G = 6,
}

#[derive(Clone, Copy, Debug, PartialEq, Eq)]
pub enum Fill {
    Zero = 0,
    PatternAA = 1,
    Random = 2,
    /// Leave whatever is there: virgin bytes (0xCD), poison (0xDD) or real
    /// stale contents when `poison_free` is off.
    Stale = 3,
}

#[derive(Clone, Copy, Debug, PartialEq, Eq)]
pub struct Config {
    pub placement: Placement,
    pub fill: Fill,
    pub realloc_move: bool,
    pub poison_free: bool,
    /// 0 = never fail; k = the k-th in-scope allocation request returns null.
    pub fail_at: u32,
    /// with `fail_at = k`: every request from the k-th on fails (an exhausted
    /// heap), not just the k-th (a transient failure)
    pub fail_persist: bool,
    pub alloc_seed: u64,
}

impl Config {
    pub const BASELINE: Self = Self {
        placement: Placement::Natural16,
        fill: Fill::Zero,
        realloc_move: false,
        poison_free: true,
        fail_at: 0,
        fail_persist: false,
        alloc_seed: 0,
    };

    pub fn to_text(&self) -> String {
        format!(
            "placement={} fill={} realloc_move={} poison_free={} fail_at={} fail_persist={} alloc_seed={}",
            self.placement as u8,
            self.fill as u8,
            self.realloc_move as u8,
            self.poison_free as u8,
            self.fail_at,
            self.fail_persist as u8,
            self.alloc_seed
        )
    }

    pub fn from_text(s: &str) -> Option<Self> {
        let mut c = Self::BASELINE;
        for kv in s.split_whitespace() {
            let (k, v) = kv.split_once('=')?;
            let n: u64 = v.parse().ok()?;
            match k {
                "placement" => {
                    c.placement = match n {
                        0 => Placement::Natural16,
                        1 => Placement::MinAlign,
                        2 => Placement::ReuseLifo,
                        3 => Placement::RandomGap,
                        4 => Placement::PageEnd,
                        5 => Placement::Packed,
                        6 => Placement::Straddle4G,
                        _ => return None,
                    }
                }
                "fill" => {
                    c.fill = match n {
                        0 => Fill::Zero,
                        1 => Fill::PatternAA,
                        2 => Fill::Random,
                        3 => Fill::Stale,
                        _ => return None,
                    }
                }
                "realloc_move" => c.realloc_move = n != 0,
                "poison_free" => c.poison_free = n != 0,
                "fail_at" => c.fail_at = n as u32,
                "fail_persist" => c.fail_persist = n != 0,
                "alloc_seed" => c.alloc_seed = n,
                _ => return None,
            }
        }
        Some(c)
    }

    pub fn describe(&self) -> String {
        format!(
            "{:?}/{:?}{}{}{}",
            self.placement,
            self.fill,
            if self.realloc_move { "/realloc-move" } else { "" },
            if self.poison_free { "" } else { "/no-poison" },
            if self.fail_at != 0 {
                format!("/fail_{}={}", if self.fail_persist { "from" } else { "at" }, self.fail_at)
            } else {
                String::new()
            }
        )
    }
}

#[derive(Clone, Copy, Debug, PartialEq, Eq)]
pub enum EventKind {
    Alloc = 1,
    Free = 2,
    ReallocInPlace = 3,
    ReallocMove = 4,
    FailedAlloc = 5,
}

#[derive(Clone, Copy, Debug)]
pub struct Event {
    pub kind: EventKind,
    pub off: u32,
    pub size: u32,
    pub align: u32,
    pub op: u32,
    pub recycled: bool,
}

#[derive(Clone, Copy, Debug, PartialEq, Eq)]
pub enum FlagKind {
    /// free/realloc of an arena address that is not the start of a live block.
    FreeUnknown,
    /// free of a block that was already freed (exact start of a freed block).
    DoubleFree,
    /// Layout passed to dealloc/realloc differs from the one used to allocate.
    LayoutMismatch,
    CanaryFront,
    CanaryBack,
    /// bytes of a freed block changed after the free.
    WriteAfterFree,
    /// harness limits exceeded (not a verdict: reported as exit 2).
    HarnessLimit,
}

#[derive(Clone, Copy, Debug)]
pub struct Flag {
    pub kind: FlagKind,
    pub off: u32,
    pub a_size: u32,
    pub a_align: u32,
    pub f_size: u32,
    pub f_align: u32,
    pub op: u32,
}

impl Flag {
    pub fn describe(&self) -> String {
        match self.kind {
            FlagKind::FreeUnknown if self.off == u32::MAX => format!(
                "dealloc(null, size {}, align {}) at_op={}: a pointer that was never allocated was freed",
                self.f_size, self.f_align, self.op
            ),
            FlagKind::LayoutMismatch => format!(
                "layout-mismatch off={} allocated=({},{}) freed_with=({},{}) at_op={}",
                self.off, self.a_size, self.a_align, self.f_size, self.f_align, self.op
            ),
            k => format!("{:?} off={} block=({},{}) at_op={}", k, self.off, self.a_size, self.a_align, self.op),
        }
    }
    pub fn clause(&self) -> &'static str {
        match self.kind {
            FlagKind::FreeUnknown => "free-unknown",
            FlagKind::DoubleFree => "double-free",
            FlagKind::LayoutMismatch => "free-layout",
            FlagKind::CanaryFront => "underrun",
            FlagKind::CanaryBack => "overrun",
            FlagKind::WriteAfterFree => "write-after-free",
            FlagKind::HarnessLimit => "harness-limit",
        }
    }
}

#[derive(Clone, Copy, Debug, PartialEq, Eq)]
enum BState {
    Live,
    Freed,
    /// Freed and its bytes handed out again (record kept only for history).
    Recycled,
}

#[derive(Clone, Copy, Debug)]
struct Block {
    off: u32,
    size: u32,
    align: u32,
    /// bytes usable from `off` before the next block's front red zone.
    cap: u32,
    state: BState,
    op: u32,
    free_seq: u32,
    /// poison was applied at free time (only then is WriteAfterFree checked).
    poisoned: bool,
}

/// Counters of what actually happened (fired, not configured).
#[derive(Clone, Copy, Debug, Default)]
pub struct Counters {
    pub allocs: u64,
    pub frees: u64,
    pub reallocs_in_place: u64,
    pub reallocs_moved: u64,
    pub failed_allocs: u64,
    /// returned address was ≢ 0 (mod 2·align): truly minimally aligned.
    pub minaligned: u64,
    /// returned address ≡ 8 (mod 16) for an 8-aligned request.
    pub at_8_mod_16: u64,
    /// allocation landed on bytes that were used before in this run.
    pub recycled: u64,
    /// allocation was handed out with non-zero contents.
    pub dirty: u64,
    /// allocation placed flush against a PROT_NONE guard page.
    pub guarded: u64,
    /// allocation placed across or flush against a multiple of 4 GiB.
    pub straddled: u64,
    pub bytes: u64,
}

struct State {
    cfg: Config,
    bump: usize,
    high_water: usize,
    nblocks: usize,
    nevents: usize,
    nflags: usize,
    alloc_index: u32,
    free_seq: u32,
    cur_op: u32,
    straddle_done: bool,
    counters: Counters,
    /// offsets (page index) of pages currently PROT_NONE.
    nguards: usize,
    guards: [u32; 2048],
    blocks: [Block; MAX_BLOCKS],
    events: [Event; MAX_EVENTS],
    flags: [Flag; MAX_FLAGS],
}

const B0: Block = Block { off: 0, size: 0, align: 0, cap: 0, state: BState::Recycled, op: 0, free_seq: 0, poisoned: false };
const E0: Event = Event { kind: EventKind::Alloc, off: 0, size: 0, align: 0, op: 0, recycled: false };
const F0: Flag = Flag { kind: FlagKind::HarnessLimit, off: 0, a_size: 0, a_align: 0, f_size: 0, f_align: 0, op: 0 };

static mut ST: State = State {
    cfg: Config::BASELINE,
    bump: 0,
    high_water: 0,
    nblocks: 0,
    nevents: 0,
    nflags: 0,
    alloc_index: 0,
    free_seq: 0,
    cur_op: 0,
    straddle_done: false,
    counters: Counters {
        allocs: 0,
        frees: 0,
        reallocs_in_place: 0,
        reallocs_moved: 0,
        failed_allocs: 0,
        minaligned: 0,
        at_8_mod_16: 0,
        recycled: 0,
        dirty: 0,
        guarded: 0,
        straddled: 0,
        bytes: 0,
    },
    nguards: 0,
    guards: [0; 2048],
    blocks: [B0; MAX_BLOCKS],
    events: [E0; MAX_EVENTS],
    flags: [F0; MAX_FLAGS],
};

#[inline]
fn st() -> &'static mut State {
    // SAFETY: single-threaded use (see module docs).
    unsafe { &mut *std::ptr::addr_of_mut!(ST) }
}

extern "C" {
    fn mprotect(addr: *mut u8, len: usize, prot: i32) -> i32;
    fn mmap(addr: *mut u8, len: usize, prot: i32, flags: i32, fd: i32, off: i64) -> *mut u8;
    fn munmap(addr: *mut u8, len: usize) -> i32;
    fn write(fd: i32, buf: *const u8, n: usize) -> isize;
    fn _exit(code: i32) -> !;
}

/// Exit code of a run whose library code kept re-requesting memory after an
/// injected failure (an unbounded retry loop): detected at the seam, reported
/// by the parent as a hang without waiting for the watchdog.
pub const EXIT_RETRY_STORM: i32 = 97;
/// Exit code of a run that outgrew the simulator (arena or block table): a
/// harness error (exit 2 of the check), never a verdict.
pub const EXIT_HARNESS_LIMIT: i32 = 98;
const RETRY_STORM_LIMIT: u64 = 200_000;
const PROT_NONE: i32 = 0;
const PROT_RW: i32 = 3;
const PAGE: usize = 4096;

pub struct SimAlloc;

#[inline]
fn arena() -> usize {
    ARENA_BASE.load(Ordering::Relaxed)
}

#[inline]
fn in_arena(p: *mut u8) -> bool {
    let b = arena();
    b != 0 && (p as usize) >= b && (p as usize) < b + ARENA_LEN
}

#[inline]
fn round_up(x: usize, a: usize) -> usize {
    (x + a - 1) & !(a - 1)
}

fn canary_byte(off: usize) -> u8 {
    // Keyed by offset so that a copied canary does not validate elsewhere.
    0xC0 | ((off as u8).wrapping_mul(7) & 0x3f) | 1
}

impl State {
    /// red-zone width of this run
    fn rz(&self) -> usize {
        if self.cfg.placement == Placement::Packed {
            0
        } else {
            RZ
        }
    }

    fn flag(&mut self, kind: FlagKind, b: Option<&Block>, off: u32, f: Option<Layout>) {
        // (After an injected failure the process may be on std's abort path,
        // whose diagnostics — a backtrace when RUST_BACKTRACE is set — allocate
        // without bound while the scope is still active: then a plain null is
        // the right answer and the documented abort follows.)
        if kind == FlagKind::HarnessLimit && off >= 2 && self.counters.failed_allocs == 0 {
            // The simulated heap itself is exhausted (arena, block table): this
            // says nothing about the library. Never let it look like an
            // allocation failure the library has to cope with.
            unsafe {
                let fd = OOM_FD.load(Ordering::Relaxed);
                let msg = b"F harness-limit request=";
                let fd = if fd >= 0 { fd } else { 2 };
                write(fd, msg.as_ptr(), msg.len());
                // decimal without allocating
                let mut digits = [0u8; 24];
                let mut n = f.map(|l| l.size()).unwrap_or(0);
                let mut i = digits.len() - 1;
                digits[i] = b'\n';
                loop {
                    i -= 1;
                    digits[i] = b'0' + (n % 10) as u8;
                    n /= 10;
                    if n == 0 {
                        break;
                    }
                }
                write(fd, digits.as_ptr().add(i), digits.len() - i);
                _exit(EXIT_HARNESS_LIMIT);
            }
        }
        if self.nflags >= MAX_FLAGS {
            return;
        }
        let (a_size, a_align) = b.map(|b| (b.size, b.align)).unwrap_or((0, 0));
        let (f_size, f_align) = f.map(|l| (l.size() as u32, l.align() as u32)).unwrap_or((0, 0));
        self.flags[self.nflags] = Flag { kind, off, a_size, a_align, f_size, f_align, op: self.cur_op };
        self.nflags += 1;
    }

    fn event(&mut self, kind: EventKind, off: usize, size: usize, align: usize, recycled: bool) {
        if self.nevents >= MAX_EVENTS {
            self.flag(FlagKind::HarnessLimit, None, 1, None);
            return;
        }
        self.events[self.nevents] =
            Event { kind, off: off as u32, size: size as u32, align: align as u32, op: self.cur_op, recycled };
        self.nevents += 1;
    }

    unsafe fn write_canaries(&self, off: usize, size: usize) {
        if self.rz() == 0 {
            return;
        }
        let base = arena() as *mut u8;
        for i in 0..RZ {
            *base.add(off - RZ + i) = canary_byte(off - RZ + i);
        }
        for i in 0..RZ {
            *base.add(off + size + i) = canary_byte(off + size + i);
        }
    }

    /// Back canary only for guarded blocks is shortened to what fits before
    /// the guard page (possibly zero bytes) — the page itself is the detector.
    unsafe fn check_canaries(&mut self, bi: usize) {
        if self.rz() == 0 {
            return;
        }
        let b = self.blocks[bi];
        let base = arena() as *mut u8;
        let off = b.off as usize;
        for i in 0..RZ {
            if *base.add(off - RZ + i) != canary_byte(off - RZ + i) {
                self.flag(FlagKind::CanaryFront, Some(&b), b.off, None);
                break;
            }
        }
        let back = self.back_len(off + b.size as usize);
        for i in 0..back {
            let o = off + b.size as usize + i;
            if *base.add(o) != canary_byte(o) {
                self.flag(FlagKind::CanaryBack, Some(&b), b.off, None);
                break;
            }
        }
    }

    /// Number of back-canary bytes that exist after `end` (RZ unless a guard
    /// page starts earlier).
    fn back_len(&self, end: usize) -> usize {
        let next_page = round_up(end, PAGE);
        if next_page - end < RZ && self.is_guard((next_page / PAGE) as u32) {
            next_page - end
        } else {
            RZ
        }
    }

    fn is_guard(&self, page: u32) -> bool {
        self.guards[..self.nguards].contains(&page)
    }

    fn find_live(&self, off: usize) -> Option<usize> {
        (0..self.nblocks).rev().find(|&i| self.blocks[i].off as usize == off && self.blocks[i].state == BState::Live)
    }

    fn find_freed(&self, off: usize) -> Option<usize> {
        (0..self.nblocks).rev().find(|&i| self.blocks[i].off as usize == off && self.blocks[i].state == BState::Freed)
    }

    unsafe fn do_alloc(&mut self, layout: Layout) -> *mut u8 {
        let size = layout.size();
        let align = layout.align();
        self.alloc_index = self.alloc_index.saturating_add(1);
        let idx = self.alloc_index;
        // A single request larger than the whole simulated heap can never be
        // served, however empty the heap is: it is refused the way every real
        // allocator refuses it (null), and the run goes on under the rules for
        // an allocation failure. (Not a harness limit: the workload never
        // supplies that much; such a request comes from a size the library
        // read from memory it should not have read, and the defect shows in
        // the runs where that memory holds something else.)
        let oversize = size > ARENA_LEN;
        if oversize || (self.cfg.fail_at != 0 && (idx == self.cfg.fail_at || (self.cfg.fail_persist && idx > self.cfg.fail_at))) {
            self.counters.failed_allocs += 1;
            self.event(EventKind::FailedAlloc, 0, size, align, false);
            let fd = OOM_FD.load(Ordering::Relaxed);
            if self.counters.failed_allocs > RETRY_STORM_LIMIT {
                if fd >= 0 {
                    let msg = b"F retry-storm\n";
                    write(fd, msg.as_ptr(), msg.len());
                }
                _exit(EXIT_RETRY_STORM);
            }
            // once per run: a library that retries in a loop must not be able
            // to keep the result pipe busy (the watchdog listens for silence)
            if fd >= 0 && self.counters.failed_allocs == 1 {
                let msg = b"F oom-injected\n";
                write(fd, msg.as_ptr(), msg.len());
            }
            return std::ptr::null_mut();
        }
        if self.nblocks >= MAX_BLOCKS || align > PAGE {
            self.flag(FlagKind::HarnessLimit, None, 2, Some(layout));
            return std::ptr::null_mut();
        }
        let r = mix(self.cfg.alloc_seed, idx as u64);
        let base = arena() as *mut u8;

        // 1. choose the user offset
        let mut recycled = false;
        let mut cap = 0usize;
        let mut off = 0usize;
        let mut guarded = false;
        if self.cfg.placement == Placement::ReuseLifo {
            // most recently freed block that fits and satisfies the alignment
            let mut best: Option<usize> = None;
            for i in 0..self.nblocks {
                let b = &self.blocks[i];
                if b.state == BState::Freed
                    && b.cap as usize >= size
                    && (b.off as usize) % align == 0
                    && best.map_or(true, |j| self.blocks[j].free_seq < b.free_seq)
                {
                    best = Some(i);
                }
            }
            if let Some(i) = best {
                self.check_poison(i);
                self.blocks[i].state = BState::Recycled;
                off = self.blocks[i].off as usize;
                cap = self.blocks[i].cap as usize;
                recycled = true;
            }
        }
        if !recycled {
            let start = self.bump + self.rz();
            let placement = match self.cfg.placement {
                Placement::RandomGap => match r % 3 {
                    0 => Placement::Natural16,
                    _ => Placement::MinAlign,
                },
                Placement::ReuseLifo => Placement::MinAlign,
                // out of guard slots: ordinary minimal-alignment placement
                // (a page per block without a guard would only burn arena)
                Placement::PageEnd if self.nguards >= self.guards.len() => Placement::MinAlign,
                Placement::Straddle4G => Placement::MinAlign,
                p => p,
            };
            // the one boundary allocation of a Straddle4G run
            let boundary = BOUNDARY_OFF.load(Ordering::Relaxed);
            let mut straddle_at = None;
            if self.cfg.placement == Placement::Straddle4G && !self.straddle_done && boundary != 0 {
                let want = [48usize, 200, 1000, 5000][(self.cfg.alloc_seed % 4) as usize];
                if size >= want && size < ARENA_LEN / 8 && start + RZ < boundary - size {
                    // bit 2 of the seed: flush against the boundary, or across it
                    let o = if self.cfg.alloc_seed & 4 == 0 { boundary - size } else { boundary - (size / 2) };
                    straddle_at = Some(o & !(align - 1));
                }
            }
            off = match placement {
                _ if straddle_at.is_some() => {
                    self.straddle_done = true;
                    self.counters.straddled += 1;
                    straddle_at.unwrap()
                }
                Placement::Packed => round_up(start, align),
                Placement::Natural16 => round_up(start, align.max(16)),
                Placement::PageEnd => {
                    // end of the block flush at a page boundary; that page
                    // becomes a guard. The start must still satisfy `align`,
                    // so the end is flush only up to alignment slack.
                    let need = round_up(start + align + size, PAGE);
                    let o = (need - size) & !(align - 1);
                    guarded = true;
                    o
                }
                _ => {
                    let gap = if self.cfg.placement == Placement::RandomGap { ((r >> 8) % 5) as usize * align } else { 0 };
                    let mut o = round_up(start + gap, align);
                    if o % (2 * align) == 0 {
                        o += align;
                    }
                    o
                }
            };
            cap = size;
            let mut end = off + size + self.rz();
            if guarded {
                let gp = round_up(off + size, PAGE);
                end = gp + PAGE;
                if self.nguards >= self.guards.len() {
                    guarded = false;
                    end = off + size + RZ;
                }
            }
            if end + RZ > ARENA_LEN {
                self.flag(FlagKind::HarnessLimit, None, 3, Some(layout));
                return std::ptr::null_mut();
            }
            self.bump = end;
            if self.bump > self.high_water {
                self.high_water = self.bump;
            }
        }

        // 2. contents
        let p = base.add(off);
        let mut dirty = false;
        match self.cfg.fill {
            Fill::Zero => std::ptr::write_bytes(p, 0, size),
            Fill::PatternAA => {
                std::ptr::write_bytes(p, 0xAA, size);
                dirty = size > 0;
            }
            Fill::Random => {
                let mut x = r;
                for i in 0..size {
                    if i % 8 == 0 {
                        x = crate::rng::splitmix64(x);
                    }
                    // never zero, so "unwritten" is always distinguishable
                    *p.add(i) = ((x >> (8 * (i % 8))) as u8) | 1;
                }
                dirty = size > 0;
            }
            Fill::Stale => {
                dirty = size > 0;
            }
        }
        if recycled {
            // the old back canary area beyond `size` stays as is; write fresh
            // canaries around the new extent
            self.write_canaries(off, size);
        } else if guarded {
            let gp = round_up(off + size, PAGE);
            for i in 0..RZ {
                *base.add(off - RZ + i) = canary_byte(off - RZ + i);
            }
            for o in off + size..gp {
                *base.add(o) = canary_byte(o);
            }
            if mprotect(base.add(gp), PAGE, PROT_NONE) == 0 {
                self.guards[self.nguards] = (gp / PAGE) as u32;
                self.nguards += 1;
                self.counters.guarded += 1;
            } else {
                self.flag(FlagKind::HarnessLimit, None, 4, Some(layout));
            }
        } else {
            self.write_canaries(off, size);
        }

        // 3. bookkeeping
        self.blocks[self.nblocks] = Block {
            off: off as u32,
            size: size as u32,
            align: align as u32,
            cap: cap as u32,
            state: BState::Live,
            op: self.cur_op,
            free_seq: 0,
            poisoned: false,
        };
        self.nblocks += 1;
        self.counters.allocs += 1;
        self.counters.bytes += size as u64;
        if off % (2 * align) != 0 {
            self.counters.minaligned += 1;
        }
        if align == 8 && off % 16 == 8 {
            self.counters.at_8_mod_16 += 1;
        }
        if recycled {
            self.counters.recycled += 1;
        }
        if dirty {
            self.counters.dirty += 1;
        }
        self.event(EventKind::Alloc, off, size, align, recycled);
        p
    }

    unsafe fn check_poison(&mut self, bi: usize) {
        let b = self.blocks[bi];
        if !b.poisoned {
            return;
        }
        let base = arena() as *mut u8;
        for i in 0..b.size as usize {
            if *base.add(b.off as usize + i) != POISON {
                self.flag(FlagKind::WriteAfterFree, Some(&b), b.off, None);
                break;
            }
        }
    }

    unsafe fn do_free(&mut self, ptr: *mut u8, layout: Layout, record_event: bool) {
        let off = ptr as usize - arena();
        let bi = match self.find_live(off) {
            Some(i) => i,
            None => {
                if let Some(j) = self.find_freed(off) {
                    let b = self.blocks[j];
                    self.flag(FlagKind::DoubleFree, Some(&b), off as u32, Some(layout));
                } else {
                    self.flag(FlagKind::FreeUnknown, None, off as u32, Some(layout));
                }
                return;
            }
        };
        let b = self.blocks[bi];
        if b.size as usize != layout.size() || b.align as usize != layout.align() {
            self.flag(FlagKind::LayoutMismatch, Some(&b), b.off, Some(layout));
        }
        self.check_canaries(bi);
        self.free_seq += 1;
        self.blocks[bi].state = BState::Freed;
        self.blocks[bi].free_seq = self.free_seq;
        if self.cfg.poison_free {
            std::ptr::write_bytes(ptr, POISON, b.size as usize);
            self.blocks[bi].poisoned = true;
        }
        self.counters.frees += 1;
        if record_event {
            self.event(EventKind::Free, off, b.size as usize, b.align as usize, false);
        }
    }

    unsafe fn do_realloc(&mut self, ptr: *mut u8, layout: Layout, new_size: usize) -> *mut u8 {
        let off = ptr as usize - arena();
        let bi = match self.find_live(off) {
            Some(i) => i,
            None => {
                self.flag(FlagKind::FreeUnknown, None, off as u32, Some(layout));
                return std::ptr::null_mut();
            }
        };
        let b = self.blocks[bi];
        if b.size as usize != layout.size() || b.align as usize != layout.align() {
            self.flag(FlagKind::LayoutMismatch, Some(&b), b.off, Some(layout));
        }
        let is_top = off + b.size as usize + self.rz() == self.bump;
        let guarded_block = self.is_guard((round_up(off + b.size as usize, PAGE) / PAGE) as u32)
            && round_up(off + b.size as usize, PAGE) - (off + b.size as usize) < RZ;
        let can_in_place = !guarded_block
            && (new_size <= b.size as usize || (is_top && off + new_size + 2 * RZ <= ARENA_LEN));
        if !self.cfg.realloc_move && can_in_place {
            self.check_canaries(bi);
            let base = arena() as *mut u8;
            if new_size > b.size as usize {
                let extra = new_size - b.size as usize;
                let p = base.add(off + b.size as usize);
                match self.cfg.fill {
                    Fill::Zero => std::ptr::write_bytes(p, 0, extra),
                    Fill::PatternAA => std::ptr::write_bytes(p, 0xAA, extra),
                    Fill::Random | Fill::Stale => {}
                }
                self.bump = off + new_size + self.rz();
                if self.bump > self.high_water {
                    self.high_water = self.bump;
                }
                self.blocks[bi].cap = new_size as u32;
            }
            self.blocks[bi].size = new_size as u32;
            self.write_canaries(off, new_size);
            self.counters.reallocs_in_place += 1;
            self.event(EventKind::ReallocInPlace, off, new_size, b.align as usize, false);
            return ptr;
        }
        // move: new block through the normal path (counts as an allocation
        // request, so it can be the one that fails), copy, free the old one
        let new_layout = Layout::from_size_align_unchecked(new_size, layout.align());
        let np = self.do_alloc(new_layout);
        if np.is_null() {
            return np; // old block stays valid, as the contract requires
        }
        std::ptr::copy_nonoverlapping(ptr, np, new_size.min(b.size as usize));
        let b_layout = Layout::from_size_align_unchecked(b.size as usize, b.align as usize);
        self.do_free(ptr, b_layout, false);
        self.counters.reallocs_moved += 1;
        self.event(EventKind::ReallocMove, np as usize - arena(), new_size, layout.align(), false);
        np
    }
}

unsafe impl GlobalAlloc for SimAlloc {
    unsafe fn alloc(&self, layout: Layout) -> *mut u8 {
        if ACTIVE.load(Ordering::Relaxed) {
            st().do_alloc(layout)
        } else {
            System.alloc(layout)
        }
    }

    unsafe fn dealloc(&self, ptr: *mut u8, layout: Layout) {
        if ptr.is_null() {
            // never legal (the contract requires a currently allocated block);
            // glibc would silently accept it as free(NULL)
            if arena() != 0 {
                st().flag(FlagKind::FreeUnknown, None, u32::MAX, Some(layout));
            }
            return;
        }
        if in_arena(ptr) {
            st().do_free(ptr, layout, true)
        } else {
            System.dealloc(ptr, layout)
        }
    }

    unsafe fn realloc(&self, ptr: *mut u8, layout: Layout, new_size: usize) -> *mut u8 {
        if in_arena(ptr) {
            st().do_realloc(ptr, layout, new_size)
        } else {
            System.realloc(ptr, layout, new_size)
        }
    }

    unsafe fn alloc_zeroed(&self, layout: Layout) -> *mut u8 {
        if ACTIVE.load(Ordering::Relaxed) {
            let p = st().do_alloc(layout);
            if !p.is_null() {
                std::ptr::write_bytes(p, 0, layout.size());
            }
            p
        } else {
            System.alloc_zeroed(layout)
        }
    }
}

// ---------------------------------------------------------------------------
// Harness-facing API
// ---------------------------------------------------------------------------

/// Allocates the arena (once per process).
pub fn init() {
    if arena() != 0 {
        return;
    }
    // Preferably the arena sits around a multiple of 4 GiB (its middle), at a
    // fixed address: addresses above 2^32 are what a 64-bit loader sees, and the
    // Straddle4G placement needs the boundary inside the arena.
    const MAP_PRIVATE_ANON_NOREPLACE: i32 = 0x02 | 0x20 | 0x10_0000;
    for boundary in [0x6_0000_0000usize, 0x7_0000_0000, 0x11_0000_0000, 0x23_0000_0000] {
        let want = (boundary - ARENA_LEN / 2) as *mut u8;
        let p = unsafe { mmap(want, ARENA_LEN, PROT_RW, MAP_PRIVATE_ANON_NOREPLACE, -1, 0) };
        if p == want {
            unsafe { std::ptr::write_bytes(p, VIRGIN, ARENA_LEN) };
            ARENA_BASE.store(p as usize, Ordering::Relaxed);
            BOUNDARY_OFF.store(ARENA_LEN / 2, Ordering::Relaxed);
            return;
        }
        if p as isize != -1 && !p.is_null() {
            unsafe { munmap(p, ARENA_LEN) };
        }
    }
    let layout = Layout::from_size_align(ARENA_LEN, PAGE).unwrap();
    let p = unsafe { System.alloc(layout) };
    assert!(!p.is_null(), "arena allocation failed");
    unsafe { std::ptr::write_bytes(p, VIRGIN, ARENA_LEN) };
    ARENA_BASE.store(p as usize, Ordering::Relaxed);
}

/// Resets the arena and installs the run's allocator script.
pub fn begin_run(cfg: Config) {
    assert!(!ACTIVE.load(Ordering::Relaxed));
    let s = st();
    let base = arena() as *mut u8;
    unsafe {
        for i in 0..s.nguards {
            mprotect(base.add(s.guards[i] as usize * PAGE), PAGE, PROT_RW);
        }
        // Only the ranges the previous run touched are reset (a PageEnd run
        // spreads few bytes over many pages).
        for i in 0..s.nblocks {
            let b = s.blocks[i];
            let lo = (b.off as usize).saturating_sub(RZ);
            let hi = (b.off as usize + (b.cap.max(b.size)) as usize + RZ).min(ARENA_LEN);
            std::ptr::write_bytes(base.add(lo), VIRGIN, hi - lo);
        }
    }
    s.nguards = 0;
    s.cfg = cfg;
    s.bump = 0;
    s.high_water = 0;
    s.nblocks = 0;
    s.nevents = 0;
    s.nflags = 0;
    s.alloc_index = 0;
    s.free_seq = 0;
    s.cur_op = 0;
    s.straddle_done = false;
    s.counters = Counters::default();
}

/// False when no arena exists (the Miri tier: Miri's own allocator model is
/// the simulated allocator there and SimAlloc is compiled out).
pub fn tracking() -> bool {
    arena() != 0
}

/// The byte the harness dirties the stack with under the current script
/// (`None`: leave the stack alone).
pub fn stack_pattern() -> Option<u8> {
    match st().cfg.fill {
        Fill::Zero => Some(0),
        Fill::PatternAA => Some(0xAA),
        Fill::Random => Some(0x5B | (st().cfg.alloc_seed as u8 & 0xA4)),
        // "stale" for the stack still has to be a known byte: leftovers of
        // earlier runs in the same process would make digests depend on which
        // worker ran which index
        Fill::Stale => Some(0xCD),
    }
}

pub fn set_op(i: u32) {
    st().cur_op = i;
}

/// RAII scope: allocations made while a `Scope` is alive are simulated.
pub struct Scope(bool);

impl Scope {
    pub fn enter() -> Self {
        let prev = ACTIVE.swap(true, Ordering::Relaxed);
        Scope(prev)
    }
}

impl Drop for Scope {
    fn drop(&mut self) {
        ACTIVE.store(self.0, Ordering::Relaxed);
    }
}

/// Called first thing by the panic hook: nothing the panic machinery
/// allocates may land in (or shift indices of) the simulated heap.
pub fn deactivate() {
    ACTIVE.store(false, Ordering::Relaxed);
}

pub fn is_active() -> bool {
    ACTIVE.load(Ordering::Relaxed)
}

#[derive(Clone, Copy, Debug, PartialEq, Eq)]
pub struct BlockInfo {
    pub off: usize,
    pub size: usize,
    pub align: usize,
    pub op: u32,
}

/// The live block that starts exactly at `addr`, if any.
pub fn live_block_at(addr: usize) -> Option<BlockInfo> {
    let b = arena();
    if b == 0 || addr < b || addr >= b + ARENA_LEN {
        return None;
    }
    let s = st();
    s.find_live(addr - b).map(|i| {
        let k = s.blocks[i];
        BlockInfo { off: k.off as usize, size: k.size as usize, align: k.align as usize, op: k.op }
    })
}

pub fn offset_of_addr(addr: usize) -> Option<usize> {
    let b = arena();
    if b != 0 && addr >= b && addr < b + ARENA_LEN {
        Some(addr - b)
    } else {
        None
    }
}

pub fn live_blocks() -> Vec<BlockInfo> {
    let s = st();
    (0..s.nblocks)
        .filter(|&i| s.blocks[i].state == BState::Live)
        .map(|i| {
            let k = s.blocks[i];
            BlockInfo { off: k.off as usize, size: k.size as usize, align: k.align as usize, op: k.op }
        })
        .collect()
}

/// Checks every live block's canaries and every freed block's poison.
pub fn sweep() {
    let s = st();
    for i in 0..s.nblocks {
        unsafe {
            match s.blocks[i].state {
                BState::Live => s.check_canaries(i),
                BState::Freed => s.check_poison(i),
                BState::Recycled => {}
            }
        }
    }
}

pub fn take_flags() -> Vec<Flag> {
    let s = st();
    let v = s.flags[..s.nflags].to_vec();
    s.nflags = 0;
    v
}

pub fn events() -> &'static [Event] {
    let s = st();
    &s.events[..s.nevents]
}

pub fn event_count() -> usize {
    st().nevents
}

pub fn alloc_index() -> u32 {
    st().alloc_index
}

pub fn counters() -> Counters {
    st().counters
}
